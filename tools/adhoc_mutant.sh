#!/bin/sh
# tools/adhoc_mutant.sh <file under /repo> <python-expr old> <new> <check ids...>   (plain string replace, once)
F=$1; OLD=$2; NEW=$3; shift 3
cd /verif || exit 2
if ! git -C /repo diff --quiet; then echo "/repo dirty"; exit 2; fi
python3 - "$F" "$OLD" "$NEW" <<'PY' || exit 3
import sys
p,old,new=sys.argv[1:4]
s=open('/repo/'+p).read()
assert s.count(old)>=1, "pattern not found"
open('/repo/'+p,'w').write(s.replace(old,new,1))
PY
trap 'git -C /repo checkout -- .' EXIT INT TERM
for c in "$@"; do
  out=$(./check $c --tier ${TIER:-quick} 2>&1); rc=$?
  echo "== adhoc / $c: exit $rc"
  echo "$out" | grep -E "^(VIOLATION|KNOWN-FINDING|HARNESS-ERROR|  signature)" | head -4
done

#!/bin/sh
# tools/run_thorough_all.sh [ids...]: runs the thorough tier of every check once (sequentially; each uses all cores),
# evidence to a scratch directory, one summary line per check to stdout. For background use: vp run -- tools/run_thorough_all.sh
cd "$(dirname "$0")/.." || exit 2
EV=${VERIF_EVIDENCE_DIR:-/dev/shm/verif-thorough-ev}
IDS=${*:-C18 C15 C16 C17 C12 C11 C04 C02 C10 C19 C14 C13 C05 C07 C06 C08 C09 C01 C03}
for c in $IDS; do
  s=$(date +%s)
  out=$(VERIF_EVIDENCE_DIR=$EV VERIF_OUT_DIR=$EV/out ./check $c --tier thorough 2>&1); rc=$?
  e=$(date +%s)
  echo "$c thorough rc=$rc $((e-s))s :: $(echo "$out" | grep -E '^(C[0-9]+ thorough|VIOLATION|HARNESS|KNOWN|  signature)' | cut -c1-220 | tr '\n' '|')"
done

#!/usr/bin/env python3
"""Prints the markdown catch matrix of section 8 of DESIGN.md from seeded/*/meta.json and seeded/RESULTS-quick.tsv."""
import glob, json, os, re
ROOT = os.path.dirname(os.path.dirname(os.path.abspath(__file__)))
res = {}
for line in open(os.path.join(ROOT, "seeded", "RESULTS-quick.tsv")):
    f = line.rstrip("\n").split("\t")
    if len(f) >= 4:
        m = re.search(r'"symptom": "([^"]+)"', f[4] if len(f) > 4 else "")
        res[f[0]] = (f[2], f[3], m.group(1) if m else "")
extra = {}
xp = os.path.join(ROOT, "seeded", "RESULTS-cross.tsv")
if os.path.exists(xp):
    for line in open(xp):
        f = line.rstrip("\n").split("\t")
        if len(f) >= 3 and f[2] == "1":
            extra.setdefault(f[0], []).append(f[1])
print("| change | file(s) | what it needs to manifest | own quick check | symptom reported |")
print("|---|---|---|---|---|")
for d in sorted(glob.glob(os.path.join(ROOT, "seeded", "C*-*"))):
    name = os.path.basename(d)
    m = json.load(open(os.path.join(d, "meta.json")))
    files = ", ".join(os.path.basename(x) for x in m.get("files_changed", []))
    needs = " ".join(str(m.get("needs_to_manifest", "")).split())
    needs = needs[:230] + ("…" if len(needs) > 230 else "")
    rc, secs, sym = res.get(name, ("?", "", ""))
    verdict = {"1": "caught (%s)" % secs, "0": "MISSED", "2": "harness error"}.get(rc, rc)
    if rc != "1" and extra.get(name):
        verdict += "; caught by " + ", ".join(extra[name])
    print("| %s | %s | %s | %s | %s |" % (name, files, needs.replace("|", "/"), verdict, sym))

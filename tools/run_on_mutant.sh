#!/bin/sh
# tools/run_on_mutant.sh <seeded name> <check id> [more check ids...]
# Applies seeded/<name>/patch.diff to /repo, runs the quick checks, and undoes the change straight afterwards.
NAME=$1; shift
cd /verif || exit 2
if ! git -C /repo diff --quiet; then echo "/repo is dirty; refusing"; exit 2; fi
git -C /repo apply /verif/seeded/$NAME/patch.diff || exit 3
trap 'git -C /repo checkout -- .' EXIT INT TERM
for c in "$@"; do
  out=$(./check $c --tier ${TIER:-quick} 2>&1); rc=$?
  echo "== $NAME / $c: exit $rc"
  echo "$out" | grep -E "^(VIOLATION|KNOWN-FINDING|HARNESS-ERROR|  signature)" | head -6
done

#!/usr/bin/env python3
"""Regenerates /verif/MANIFEST.json from the check modules that exist (checks/cNN.py with a MANIFEST dict)."""
import importlib, json, os, sys
ROOT = os.path.dirname(os.path.dirname(os.path.abspath(__file__)))
sys.path.insert(0, ROOT)
props = [json.loads(l) for l in open(os.path.join(ROOT, "properties.jsonl"))]
checks, na = [], []
for p in props:
    pid = p["id"]
    path = os.path.join(ROOT, "checks", pid.lower() + ".py")
    src = open(path).read() if os.path.exists(path) else ""
    if "MANIFEST = " not in src:
        na.append({"property_id": pid, "reason": "check not built yet in this session (property-based testing applies; see DESIGN.md section 4)"})
        continue
    ns = {}
    # read the MANIFEST dict without importing memento
    start = src.index("MANIFEST = ")
    exec(src[start:src.index("\n}\n", start) + 3], ns)
    m = ns["MANIFEST"]
    checks.append({
        "property_id": pid,
        "quick_cmd": "./check %s --tier quick" % pid,
        "thorough_cmd": "./check %s --tier thorough" % pid,
        "evidence_file": "/verif/evidence/%s.json" % pid,
        "replay_cmd_template": "./check %s --replay {path}" % pid,
        "engine": m.get("engine", "vlib"),
        "level_claimed": {"category": m["level"], "text": m["text"], "design_ref": m.get("design_ref", "DESIGN.md section 4, " + pid)},
        "level_note": m["note"],
        "technique": m["technique"],
    })
manifest = {
    "version": 1,
    "setup_cmd": "/venv/bin/python -c 'import hypothesis' 2>/dev/null || /venv/bin/pip install --no-index --find-links /opt/veriftools/wheels hypothesis",
    "hooks": {
        "guard": "TWOSIGMA_MEMENTO_VERIF",
        "enable": "no source hooks are needed: checks observe through the public API, sys.addaudithook, sys.settrace and harness-side patching; the runner exports TWOSIGMA_MEMENTO_VERIF=1 for uniformity",
        "baseline_off_cmd": "cd /repo && /venv/bin/python -m pytest -ra -q -p no:cacheprovider --timeout=900 --continue-on-collection-errors",
        "source_commits": [],
        "add_only": True,
    },
    "engines": [
        {"name": "vlib", "path": "/verif/vlib", "serves_properties": [c["property_id"] for c in checks],
         "kind_free_text": "Hypothesis 6.168 strategies + bounded exhaustive enumeration, 16 worker processes, dictionary/reference-model oracles, audit-hook filesystem observer/fault injector, deterministic thread scheduler"},
    ],
    "checks": checks,
    "not_applicable": na,
    "notes": "All checks: ./check <ID> --tier quick|thorough; exit 0 held / 1 VIOLATION / 2 harness error. Known findings: /verif/known_findings.txt. Seeded breaking changes: /verif/seeded/.",
}
json.dump(manifest, open(os.path.join(ROOT, "MANIFEST.json"), "w"), indent=1)
print("claimed:", [c["property_id"] for c in checks], "not applicable:", [n["property_id"] for n in na])

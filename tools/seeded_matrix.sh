#!/bin/sh
# tools/seeded_matrix.sh [names...]   (default: every directory under seeded/)
# For each seeded change: apply it to /repo, run the quick check of the property it breaks, undo it straight
# afterwards; writes one line per change to seeded/RESULTS.tsv (name, property, exit, seconds, first signature).
# Evidence and violation files of these runs go to a scratch directory, never to /verif/evidence.
cd /verif || exit 2
if ! git -C /repo diff --quiet; then echo "/repo is dirty; refusing"; exit 2; fi
SCR=$(mktemp -d /dev/shm/verif-matrix-XXXXXX)
trap 'git -C /repo checkout -- . ; rm -rf "$SCR"' EXIT INT TERM
NAMES=${*:-$(ls seeded | grep -v RESULTS)}
TIER=${TIER:-quick}
for n in $NAMES; do
  [ -f seeded/$n/patch.diff ] || continue
  [ -n "$PROP" ] && prop=$PROP || prop=$(python3 -c "import json,sys;print(json.load(open('seeded/$n/meta.json')).get('property','${n%%-*}'))")
  git -C /repo apply /verif/seeded/$n/patch.diff || { echo "$n	$prop	PATCH-DOES-NOT-APPLY"; continue; }
  s=$(date +%s)
  out=$(VERIF_EVIDENCE_DIR=$SCR/ev VERIF_OUT_DIR=$SCR/out ./check $prop --tier $TIER 2>&1); rc=$?
  e=$(date +%s)
  git -C /repo checkout -- .
  sig=$(echo "$out" | grep -m1 "signature:" | cut -c1-160)
  printf '%s\t%s\t%s\t%ss\t%s\n' "$n" "$prop" "$rc" "$((e-s))" "$sig"
done | tee ${OUT:-seeded/RESULTS-$TIER.tsv}

#!/bin/sh
# tools/seeded_matrix.sh [names...]   (default: every directory under seeded/)
# For each seeded change: apply it to a scratch git worktree of /repo's HEAD (outside /repo and /verif), run the quick
# check of the property it breaks against that copy (VERIF_REPO), undo it; one line per change goes to
# seeded/RESULTS-<tier>.tsv (name, property, exit, seconds, first signature). /repo itself is never touched, and the
# evidence / violation files of these runs go to a scratch directory, never to /verif/evidence.
# PROP=<id> runs another property's check instead (cross-catching); OUT=<file> redirects the result lines.
cd /verif || exit 2
SCR=$(mktemp -d /dev/shm/verif-matrix-XXXXXX)
COPY=$SCR/repo
git -C /repo worktree add -q --detach "$COPY" HEAD || exit 2
trap 'git -C /repo worktree remove --force "$COPY" >/dev/null 2>&1; rm -rf "$SCR"; git -C /repo worktree prune' EXIT INT TERM
where=$(VERIF_REPO=$COPY PYTHONPATH=$COPY:/verif /venv/bin/python -c "import twosigma.memento as m; print(m.__file__)")
case "$where" in "$COPY"/*) ;; *) echo "copy is not what gets imported: $where"; exit 2;; esac
NAMES=${*:-$(ls seeded | grep -v RESULTS)}
TIER=${TIER:-quick}
for n in $NAMES; do
  [ -f seeded/$n/patch.diff ] || continue
  [ -n "$PROP" ] && prop=$PROP || prop=$(python3 -c "import json,sys;print(json.load(open('seeded/$n/meta.json')).get('property','${n%%-*}'))")
  git -C "$COPY" apply /verif/seeded/$n/patch.diff || { printf '%s\t%s\tPATCH-DOES-NOT-APPLY\n' "$n" "$prop"; continue; }
  s=$(date +%s)
  out=$(VERIF_REPO=$COPY VERIF_EVIDENCE_DIR=$SCR/ev VERIF_OUT_DIR=$SCR/out ./check $prop --tier $TIER 2>&1); rc=$?
  e=$(date +%s)
  git -C "$COPY" checkout -q -- .
  sig=$(echo "$out" | grep -m1 "signature:" | cut -c1-160)
  printf '%s\t%s\t%s\t%ss\t%s\n' "$n" "$prop" "$rc" "$((e-s))" "$sig"
done | tee ${OUT:-seeded/RESULTS-$TIER.tsv}

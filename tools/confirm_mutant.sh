#!/bin/sh
# tools/confirm_mutant.sh <dir with patch.diff demo.py meta.json> <name>
# Confirms in a scratch worktree (outside /repo and /verif) that the change applies, the repo's test
# suite still passes with it, demo.py fails with it and passes without it; then files it under seeded/<name>/.
set -u
SRC=$1; NAME=$2
mkdir -p /tmp/mut
WT=/tmp/mut/confirm-$$
git -C /repo worktree add -q --detach "$WT" HEAD || exit 2
trap 'git -C /repo worktree remove --force "$WT" >/dev/null 2>&1' EXIT
cd "$WT" || exit 2
R=""
PYTHONPATH=$WT timeout 300 /venv/bin/python "$SRC/demo.py" >/tmp/mut/confirm-$$.base.log 2>&1; base=$?
git apply "$SRC/patch.diff" || { echo "PATCH DOES NOT APPLY"; exit 3; }
PYTHONPATH=$WT timeout 900 /venv/bin/python -m pytest -q -p no:cacheprovider -x -n 8 >/tmp/mut/confirm-$$.tests.log 2>&1; tests=$?
PYTHONPATH=$WT timeout 300 /venv/bin/python "$SRC/demo.py" >/tmp/mut/confirm-$$.mut.log 2>&1; mut=$?
git checkout -q -- .
echo "demo(unchanged)=$base tests(with change)=$tests demo(with change)=$mut :: $(tail -1 /tmp/mut/confirm-$$.tests.log)"
if [ $base -eq 0 ] && [ $tests -eq 0 ] && [ $mut -ne 0 ]; then
  mkdir -p /verif/seeded/$NAME
  cp "$SRC/patch.diff" "$SRC/demo.py" /verif/seeded/$NAME/
  python3 - "$SRC/meta.json" /verif/seeded/$NAME/meta.json "$(git -C /repo rev-parse --short HEAD)" "$(tail -1 /tmp/mut/confirm-$$.tests.log)" <<'PY'
import json,sys
src,dst,head,tests=sys.argv[1:5]
try: m=json.load(open(src))
except Exception as e: m={"note":"agent meta unreadable: %r"%e}
m["confirmed"]={"base_commit":head,"ran":["PYTHONPATH=<wt> python demo.py on unchanged worktree -> exit 0","git apply patch.diff; pytest -q -x -n 8 -> "+tests,"PYTHONPATH=<wt> python demo.py with change -> non-zero exit","git checkout -- . ; worktree removed"]}
json.dump(m,open(dst,"w"),indent=1)
PY
  echo "CONFIRMED -> seeded/$NAME"
else
  echo "NOT CONFIRMED"; tail -5 /tmp/mut/confirm-$$.mut.log; exit 1
fi
rm -f /tmp/mut/confirm-$$.*.log

"""
Runtime imported by *generated* programs (E1). It lives outside every generated package, so it is
neither hashed nor tracked by memento. `mf` is twosigma.memento.memento_function, or an identity
decorator when VERIF_RT_IDENTITY=1 (the un-memoized reference execution of the same text).
`rec` records body executions.
"""
import os

TRACE = []


def rec(name):
    TRACE.append(name)


def take():
    out = list(TRACE)
    del TRACE[:]
    return out


if os.environ.get("VERIF_RT_IDENTITY") == "1":
    def mf(*plain, **kwargs):
        if len(plain) == 1 and callable(plain[0]) and not kwargs:
            return plain[0]

        def deco(fn):
            return fn
        return deco
else:
    from twosigma.memento import memento_function as mf  # noqa: F401

REGISTRY = {}


def ver(fn):
    """version of a memento function, asked for while its module is still being imported; None for a plain function"""
    return fn.version() if hasattr(fn, "version") and hasattr(fn, "fn_reference") else None


def fl(fn):
    """force_local() clone of a memento function; the identity for anything else (reference execution)"""
    return fn.force_local() if hasattr(fn, "force_local") else fn

"""C06 - the memory cache is bounded, least-recently-used, and keeps honest accounts."""
import collections
import os
import sys
import time

from vlib import core, env, storeops, storegen, fsaudit, values, hfuncs
from vlib.excs import lib_exception_signature

ID = "C06"
LEVEL = "exploration"
SHARDS = {"quick": 16, "thorough": 16}
RULE = (
    "(A) MemoryCache driven directly: breadth-first exploration to closure of the observable state "
    "(LRU order, per-entry size/has-value, usage counter) under put value {tiny, third, half, exactly fitting, oversize} (str values, and - in separate configurations - weak-referenceable numpy arrays), "
    "put memento only, read, is-memoized, get-mementos, forget call/function/everything on 2-3 keys in 2 functions, "
    "for several budgets; every transition is executed on a fresh cache by replaying its shortest path; invariants: "
    "usage == sum of resident sizes <= budget, no oversize resident, LRU queue == resident keys without duplicates, "
    "a fitting put is resident afterwards, evicted entries were not definitely used after the latest possible use of a retained one, "
    "evictions are minimal, residents vanish only by forget/replace/room-making, reads of residents return the last value put. "
    "(B) Hypothesis histories through the filesystem backend with a cache: same accounting invariants after every step and "
    "a read of an entry resident with its value opens no file under the store (audit hook), and a fitting str/bytes/array value that was just loaded from the store is served by the cache when it is read again at once. "
    "Non-trivial = transition/history with an eviction, an oversize or exactly fitting put, or a forget of a resident; "
    "distinct by (state, op) in A and by op-kind sequence in B."
    " Round 5: the budget every invariant is checked against is the configured one (the explicit argument), not the one the cache object reports; stores may be built from a reused configuration dict naming a larger cache."
    " Round 6: same additions as C05 (domain B); the over-eviction oracle only fires when every victim would fit back (and allows a replacing put to make room as if the old value were still there)."
)
ASSUMPTIONS = [
    "observes MemoryCache.memory_usage, .cache and .lru_deque (the attributes the repo's own tests inspect)",
    "entry size is what the cache attributes to it (obj_size); str size = sys.getsizeof",
    "metadata look-ups (get_mementos, is_memoized) count as possible, not definite, uses for the LRU-order check",
    "single thread (C09 covers concurrent use)",
]

MANIFEST = {
    "level": "exploration",
    "technique": "exhaustive state-closure enumeration of cache operation sequences + Hypothesis histories with invariant oracle and audit-hook read observer",
    "text": "Every reachable observable cache state for small key/size alphabets and several budgets is visited and every operation from it checked against accounting, LRU-order and residency invariants (exhaustive within the alphabet); random longer histories through the filesystem backend add the 'served without touching the store' observation.",
    "note": "Trusts the invariant formulation in checks/c06.py and the cache's own per-entry size attribution; alphabets and budgets are bounded as listed in evidence.",
}


# ------------------------------------------------------------------------------------------
# Domain A: direct exploration of MemoryCache
# ------------------------------------------------------------------------------------------

class CacheRig:
    def __init__(self, budget_mb, keys, kind="str", classes=("tiny", "third", "half", "fit", "over")):
        from twosigma.memento.storage_base import MemoryCache
        self.MemoryCache = MemoryCache
        self.budget_mb = budget_mb
        refs = hfuncs.refs()
        self.keys = keys
        self.rwa = {k: refs[k[0]].with_args(k[1]) for k in keys}
        self.frefs = refs
        self.budget = budget_mb * 1024 * 1024
        b = int(self.budget)
        # values are str (not weak-referenceable) or numpy int8 arrays (weak-referenceable: the cache also keeps a weak
        # reference to them, a second way to serve a read); element counts are chosen so that sys.getsizeof hits the class
        self.kind = kind
        self.classes = tuple(classes)
        ov = sys.getsizeof(self.make(0, 0))
        self.sizes = {"tiny": 1, "third": max(b // 3 - ov, 2), "half": max(b // 2 - ov, 3),
                      "fit": b - ov, "over": b - ov + 1}

    def make(self, i, n):
        if self.kind == "nd":
            import numpy as np
            return np.full(n, i % 10, dtype="int8")
        return ("%d" % (i % 10)) * n

    def ops(self):
        out = []
        for i, k in enumerate(self.keys):
            for cls in self.classes:
                out.append(["put", i, cls])
            out += [["putm", i], ["read", i], ["is", i], ["get", i], ["forget_call", i]]
        for f in sorted({k[0] for k in self.keys}):
            out.append(["forget_function", f])
        out.append(["forget_everything"])
        return out

    def cache_key(self, i):
        r = self.rwa[self.keys[i]]
        return r.fn_reference.qualified_name + "/" + r.arg_hash

    def run(self, path):
        """Execute path on a fresh cache, checking invariants after every op.
        Returns (violations, final abstract state, info about last op)."""
        cache = self.MemoryCache(self.budget_mb)
        keep = []
        viol = []
        last_put = {}          # cache_key -> value last put (with value)
        def_use = {}           # cache_key -> step of last definite use
        poss_use = {}
        info = {}
        for step, op in enumerate(path):
            before = {k: (e.obj_size, e.has_value) for k, e in cache.cache.items()}
            name = op[0]
            info = {"evicted": [], "name": name}
            try:
                if name in ("put", "putm"):
                    i = op[1]
                    ck = self.cache_key(i)
                    rwa = self.rwa[self.keys[i]]
                    if name == "put":
                        val = self.make(i, self.sizes[op[2]])
                        keep.append(val)
                        mem = storeops.make_memento(rwa, val)
                        cache.put(mem, val, has_result=True)
                        size = sys.getsizeof(val)
                        last_put[ck] = val
                    else:
                        mem = storeops.make_memento(rwa, None)
                        cache.put(mem, None, has_result=False)
                        size = sys.getsizeof(None)
                        last_put.pop(ck, None)
                    def_use[ck] = poss_use[ck] = step
                    after = {k: (e.obj_size, e.has_value) for k, e in cache.cache.items()}
                    fits = size <= self.budget
                    if fits and ck not in after:
                        viol.append(("fitting-put-not-resident", "step %d %s: entry of %d bytes fits the budget %.0f but is not resident after put" % (step, op, size, self.budget)))
                    if not fits and ck in after:
                        viol.append(("oversize-resident", "step %d %s: %d bytes > budget %.0f but resident" % (step, op, size, self.budget)))
                    evicted = [k for k in before if k not in after and k != ck]
                    retained = [k for k in after if k != ck]
                    info["evicted"] = evicted
                    if evicted and not fits:
                        viol.append(("spurious-eviction", "step %d %s: oversize put (not cached) evicted %d other entries" % (step, op, len(evicted))))
                    for e in evicted:
                        for r in retained:
                            if def_use.get(e, -1) > poss_use.get(r, -1):
                                viol.append(("not-lru", "step %d %s: evicted an entry used at step %d but kept one last used at step %d" % (
                                    step, op, def_use.get(e, -1), poss_use.get(r, -1))))
                    if evicted and fits:
                        # victims go in least-recently-used order until the new entry fits, so the LAST victim would not fit
                        # back; which victim was last is not always known here (a memento look-up may or may not count as a
                        # use), so the eviction is called excessive only if EVERY victim would fit back: take the largest
                        mru = max(evicted, key=lambda k: before[k][0])
                        # (a put that replaces a resident entry may make room as if the old value were still there: the
                        # property asks for least-recently-used victims, not for the smallest possible number of them)
                        replaced = before[ck][0] if ck in before else 0
                        if cache.memory_usage + before[mru][0] + replaced <= self.budget:
                            viol.append(("over-eviction", "step %d %s: evicted %d entries although any one of them (the largest has %d bytes) would still fit (usage %d, budget %.0f)" % (
                                step, op, len(evicted), before[mru][0], cache.memory_usage, self.budget)))
                elif name == "read":
                    i = op[1]
                    ck = self.cache_key(i)
                    mem = storeops.make_memento(self.rwa[self.keys[i]], None)
                    resident_val = ck in cache.cache and cache.cache[ck].has_value
                    try:
                        got = cache.read_result(mem)
                        if ck in last_put and got is not last_put[ck] and not values.typed_equal(got, last_put[ck]):
                            viol.append(("stale-read", "step %d %s: cache returned a value that is not the last one put" % (step, op)))
                        if ck not in last_put:
                            viol.append(("phantom-read", "step %d %s: cache returned a value for a call without cached value" % (step, op)))
                        if resident_val:
                            def_use[ck] = poss_use[ck] = step
                    except KeyError:
                        if resident_val:
                            viol.append(("resident-not-served", "step %d %s: resident value not served (KeyError)" % (step, op)))
                elif name == "is":
                    i = op[1]
                    ck = self.cache_key(i)
                    r = self.rwa[self.keys[i]]
                    got = cache.is_memoized(r.fn_reference, r.arg_hash)
                    if bool(got) != (ck in before) and not (got and ck in last_put):
                        viol.append(("is-memoized-wrong", "step %d %s: is_memoized=%r but resident=%r" % (step, op, got, ck in before)))
                    if ck in before:
                        poss_use[ck] = step
                elif name == "get":
                    i = op[1]
                    ck = self.cache_key(i)
                    got = cache.get_mementos([self.rwa[self.keys[i]].fn_reference_with_arg_hash()])
                    if (got[0] is not None) != (ck in before):
                        viol.append(("get-wrong", "step %d %s: get_mementos found=%r but resident=%r" % (step, op, got[0] is not None, ck in before)))
                    if ck in before:
                        poss_use[ck] = step
                elif name == "forget_call":
                    i = op[1]
                    ck = self.cache_key(i)
                    cache.forget_call(self.rwa[self.keys[i]].fn_reference_with_arg_hash())
                    last_put.pop(ck, None)
                    if ck in cache.cache:
                        viol.append(("forget-ineffective", "step %d %s: entry still resident" % (step, op)))
                    gone = [k for k in before if k not in cache.cache and k != ck]
                    if gone:
                        viol.append(("forget-overreach", "step %d %s: also dropped %d other entries" % (step, op, len(gone))))
                elif name == "forget_function":
                    ref = self.frefs[op[1]]
                    cache.forget_function(ref)
                    pre = ref.qualified_name + "/"
                    for k in list(last_put):
                        if k.startswith(pre):
                            last_put.pop(k)
                    left = [k for k in cache.cache if k.startswith(pre)]
                    if left:
                        viol.append(("forget-ineffective", "step %d %s: %d entries of the function still resident" % (step, op, len(left))))
                    gone = [k for k in before if k not in cache.cache and not k.startswith(pre)]
                    if gone:
                        viol.append(("forget-overreach", "step %d %s: dropped %d entries of other functions" % (step, op, len(gone))))
                elif name == "forget_everything":
                    cache.forget_everything()
                    last_put.clear()
                    if cache.cache:
                        viol.append(("forget-ineffective", "step %d %s: cache not empty" % (step, op)))
                else:
                    raise core.HarnessError("unknown op %r" % (op,))
            except core.HarnessError:
                raise
            except Exception as e:
                sig = lib_exception_signature(e)
                if sig is None:
                    raise
                viol.append(("exception", "step %d %s raised %r at %s" % (step, op, e, sig["where"])))
            # residents may only vanish by forget / same-key replace / room-making put
            if name in ("read", "is", "get"):
                gone = [k for k in before if k not in cache.cache]
                if gone:
                    viol.append(("spurious-eviction", "step %d %s: %d resident entries vanished during a look-up" % (step, op, len(gone))))
            viol += [(s, "step %d %s: %s" % (step, op, m)) for s, m in account_invariants(cache, self.budget)]
            if viol:
                break
        state = (tuple((k, cache.cache[k].obj_size if k in cache.cache else -1,
                        cache.cache[k].has_value if k in cache.cache else None) for k in cache.lru_deque),
                 int(cache.memory_usage), tuple(sorted(cache.cache)),
                 # the checker's own recency ranking is part of the explored state, so that a
                 # cache whose queue does not follow the uses is not pruned as "same state"
                 tuple(sorted(cache.cache, key=lambda k: (def_use.get(k, -1), k))),
                 tuple(sorted(cache.cache, key=lambda k: (poss_use.get(k, -1), k))))
        return viol, state, info


def account_invariants(cache, budget):
    out = []
    total = sum(e.obj_size for e in cache.cache.values())
    if cache.memory_usage != total:
        out.append(("usage-drift", "memory_usage=%s but resident entries account for %s" % (cache.memory_usage, total)))
    if cache.memory_usage > budget:
        out.append(("over-budget", "memory_usage=%s exceeds budget %.0f" % (cache.memory_usage, budget)))
    if total > budget:
        out.append(("over-budget", "resident entries total %s exceeds budget %.0f" % (total, budget)))
    for k, e in cache.cache.items():
        if e.has_value and (isinstance(e.value, (str, bytes)) or type(e.value).__name__ == "ndarray") and sys.getsizeof(e.value) > budget:
            out.append(("oversize-resident", "resident value of %d bytes exceeds budget %.0f" % (sys.getsizeof(e.value), budget)))
    lru = list(cache.lru_deque)
    if len(set(lru)) != len(lru):
        out.append(("lru-duplicate", "LRU queue holds duplicates: %d entries, %d distinct" % (len(lru), len(set(lru)))))
    if set(lru) != set(cache.cache):
        out.append(("lru-mismatch", "LRU queue keys differ from resident keys (%d vs %d)" % (len(set(lru)), len(cache.cache))))
    if not cache.cache and cache.memory_usage != 0:
        out.append(("usage-drift", "cache empty but memory_usage=%s" % cache.memory_usage))
    return out


CONFIGS_A = [
    # (budget_mb, keys[, value kind])
    (0.001, (("f#1", 0), ("f#1", 1), ("f2#1", 0))),
    (0.001, (("f#1", 0), ("f#10", 0))),
    (0.0005, (("f#1", 0), ("f#1", 1), ("f2#1", 0))),
    (0.002, (("f#1", 0), ("fa#10", 0), ("fab#1", 0))),
    (0.001, (("f#1", 0), ("f#1", 1), ("f2#1", 0)), "nd"),
    (0.002, (("f#1", 0), ("f#10", 0)), "nd"),
    (0.003, (("f#1", 0), ("f#1", 1), ("fa#10", 0)), "nd"),
    (0.001, (("fa#10", 0), ("fab#1", 0)), "nd"),
    # fewer size classes, so that the exploration gets deep (recency after forgets: which survivor goes next?)
    (0.001, (("f#1", 0), ("f#1", 1), ("f2#1", 0)), "str", ("third", "half")),
    (0.001, (("f#1", 0), ("f#10", 0), ("f2#1", 0), ("f2#1", 1)), "str", ("third",)),
    (0.002, (("f#1", 0), ("f#1", 1), ("fa#10", 0)), "nd", ("third", "half")),
    (0.001, (("f#1", 0), ("f#1", 1), ("f2#1", 0)), "str", ("half", "fit")),
    (0.001, (("f#1", 0), ("f#1", 1), ("f#10", 0), ("f2#1", 1))),
    (0.0003, (("f#1", 0), ("f#10", 0), ("f2#1", 0))),
    (0.004, (("f#1", 0), ("f#1", 1), ("f#1", 2))),
    (0.001, (("fa#10", 0), ("fab#1", 0))),
]


def explore(cfg_index, stats, findings, deadline, max_states):
    budget_mb, keys = CONFIGS_A[cfg_index][:2]
    rig = CacheRig(budget_mb, keys, *CONFIGS_A[cfg_index][2:])
    ops = rig.ops()
    _, s0, _ = rig.run([])
    seen = {s0: []}
    queue = collections.deque([s0])
    # besides the empty cache, the exploration also starts from a few filled caches whose entries were read in some
    # order (so that "which survivor goes next after a forget?" is reached within the quick budget)
    cls0 = "third" if "third" in rig.classes else rig.classes[0]
    fill = [["put", i, cls0] for i in range(len(keys))]
    for i in range(len(keys)):
        for extra in ([], [["read", (i + 1) % len(keys)]], [["get", (i + 1) % len(keys)]]):
            pre = fill + [["read", i]] + extra
            viol0, sp, _ = rig.run(pre)
            if not viol0 and sp not in seen:
                seen[sp] = pre
                queue.appendleft(sp)
    transitions = 0
    closed = True
    found = set()
    while queue:
        if (deadline and time.time() > deadline) or len(seen) > max_states:
            closed = False
            break
        s = queue.popleft()
        path = seen[s]
        for op in ops:
            p2 = path + [op]
            viol, s2, info = rig.run(p2)
            transitions += 1
            case = {"domain": "A", "budget_mb": budget_mb, "keys": [list(k) for k in keys], "path": p2, "kind": rig.kind, "classes": list(rig.classes)}
            out = core.Outcome()
            for sym, msg in viol:
                out.violation(msg, symptom=sym, domain="A")
            out.nontrivial = bool(info.get("evicted")) or (op[0] == "put" and op[2] in ("fit", "over")) \
                or (op[0].startswith("forget") and len(s[2]) > 0)
            out.nt_key = [cfg_index, repr(s), op]
            out.labels = ["A:" + op[0]] + (["A:eviction"] if info.get("evicted") else []) + \
                         (["A:put-" + op[2]] if op[0] == "put" else [])
            stats.record(case, out)
            for v in out.violations:
                f = core.match_finding(v["signature"], findings)
                if f is not None:
                    stats.known_hits[f["id"]] = stats.known_hits.get(f["id"], 0) + 1
                    continue
                k = core.sig_key(v["signature"])
                if k not in found:
                    found.add(k)
                    stats.add_violation(case, v)
            if not viol and s2 not in seen:
                seen[s2] = p2
                queue.append(s2)
    return len(seen), transitions, closed


def replay_a(case):
    rig = CacheRig(case["budget_mb"], tuple(tuple(k) for k in case["keys"]), case.get("kind", "str"),
                   tuple(case.get("classes") or ("tiny", "third", "half", "fit", "over")))
    viol, _, info = rig.run(case["path"])
    out = core.Outcome()
    for sym, msg in viol:
        out.violation(msg, symptom=sym, domain="A")
    out.nontrivial = True
    return out


# ------------------------------------------------------------------------------------------
# Domain B: histories through the filesystem backend
# ------------------------------------------------------------------------------------------

class CacheSession(storeops.Session):
    def op_read(self, fnkey, arg):
        s = self.stores[0]
        cache = s.backend._memory_cache
        r = self.rwa(fnkey, arg)
        ck = r.fn_reference.qualified_name + "/" + r.arg_hash
        resident = cache is not None and ck in cache.cache and cache.cache[ck].has_value
        want0 = self.model.get(self.key(fnkey, arg))
        if want0 is not None and values.is_partition_desc(want0["vdesc"]):
            # a partition reads its members from the store when they are asked for, resident or not
            return super().op_read(fnkey, arg)
        if resident:
            self.labels.add("read-resident")
            with fsaudit.Watch(s.root) as w:
                super().op_read(fnkey, arg)
            opens = [e for e in w.events if e["event"] == "open"]
            if opens:
                self.fail(s, "resident-read-touched-store",
                          "read of an entry resident with its value opened %d files under the store (e.g. %s)" % (
                              len(opens), os.path.relpath(opens[0]["path"], s.root)), op="read_result")
        else:
            super().op_read(fnkey, arg)
            # the entry just read is now the most recently used one: if its value fits the budget, reading it again
            # right away must be served by the cache (no file under the store is opened)
            k = self.key(fnkey, arg)
            want = self.model.get(k)
            if cache is not None and want is not None and not self.out.violations:
                value = values.build(want["vdesc"])
                fits = (isinstance(value, (str, bytes)) or type(value).__name__ == "ndarray") and \
                    sys.getsizeof(value) + 64 <= cache.memory_cache_bytes
                if fits:
                    self.labels.add("read-again-right-after-a-load")
                    with fsaudit.Watch(s.root) as w:
                        super().op_read(fnkey, arg)
                    opens = [e for e in w.events if e["event"] == "open"]
                    if opens:
                        self.fail(s, "just-read-entry-not-served-from-cache",
                                  "a value of %d bytes (budget %d) was read from the store and read again at once: the second read opened %d files under the store (e.g. %s)" % (
                                      sys.getsizeof(value), cache.memory_cache_bytes, len(opens), os.path.relpath(opens[0]["path"], s.root)), op="read_result")


def _inv_b(sess):
    s = sess.stores[0]
    cache = s.backend._memory_cache
    if cache is None:
        return
    # the budget is the one the store was configured with (the explicit argument, whatever a reused configuration dict says)
    budget = s.budget_mb * 1024 * 1024
    if cache.memory_cache_bytes != budget:
        sess.fail(s, "budget-not-the-configured-one", "the store was created with memory_cache_mb=%r (construction: %s) but its cache allows %r bytes" % (
            s.budget_mb, s.construct, cache.memory_cache_bytes), domain="B")
    for sym, msg in account_invariants(cache, budget):
        sess.fail(s, sym, msg, domain="B")
    if not sess.model and not cache.cache and cache.memory_usage != 0:
        sess.fail(s, "usage-drift", "everything forgotten but memory_usage=%s" % cache.memory_usage, domain="B")
    # forgotten calls must not be resident
    live = {k[0] + "/" + k[1] for k in sess.model}
    ghosts = [k for k in cache.cache if k not in live]
    if ghosts:
        sess.fail(s, "forgotten-resident", "%d cache entries for calls that are not memoized" % len(ghosts), domain="B")


def execute_b(case, scratch):
    d = env.fresh_dir(scratch, "c06-")
    try:
        case = dict(case)
        case["backends"] = ["fsc"]
        if not case.get("budget_kb"):
            case["budget_kb"] = 2
        sess = CacheSession(d, case)
        out = sess.run(extra_invariant=_inv_b)
        big = any(op[0] == "memoize" and op[3].get("n", 0) > 200 for op in case["ops"])
        out.nontrivial = big or "forget-live" in out.labels
        out.nt_key = storegen.op_shape(case)
        out.labels = ["B:" + l for l in out.labels] + (["B:big-value"] if big else [])
        return out
    finally:
        env.rm(d)


def replay(case, ctx):
    if case.get("domain") == "A":
        return replay_a(case)
    return execute_b(case, ctx.scratch)


def run_shard(ctx):
    stats = core.Stats()
    thorough = ctx.tier == "thorough"
    n_cfg = len(CONFIGS_A) if thorough else 12
    states = transitions = 0
    n_closed = n_run = 0
    for ci in range(n_cfg):
        if ci % ctx.nshards != ctx.shard:
            continue
        ns, nt, closed = explore(ci, stats, ctx.findings, ctx.deadline and (time.time() + (ctx.deadline - time.time()) * 0.6),
                                 max_states=200000 if thorough else 6000)
        states += ns
        transitions += nt
        n_run += 1
        n_closed += 1 if closed else 0
    stats.extra["A_states"] = states
    stats.extra["A_transitions"] = transitions
    stats.extra["A_configs_explored"] = n_run
    stats.extra["A_configs_explored_to_closure"] = n_closed
    n = 6000 if thorough else 120
    core.hyp_search(storegen.history_strategy(80 if thorough else 30, backends=("fsc",)),
                    lambda c: execute_b(c, ctx.scratch), stats, max_examples=n,
                    seed=core.hash64(ctx.seed, ID, ctx.shard), findings=ctx.findings,
                    deadline_s=(ctx.deadline - time.time()) if ctx.deadline else None)
    return stats

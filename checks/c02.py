"""C02 - memoization is transparent: same outcome, body runs once per distinct call."""
import os
import time

import twosigma.memento as m
from twosigma.memento.exception import MementoException
from twosigma.memento.metadata import ResultType
from twosigma.memento.partition import Partition

from vlib import core, env, rt, tfuncs, values, storegen
from vlib.excs import lib_exception_signature

ID = "C02"
LEVEL = "exploration"
SHARDS = {"quick": 16, "thorough": 16}
RULE = (
    "Hypothesis draws a result value from the documented domain (None, bool, int incl. > 2^64, float incl. NaN/inf/-0.0, str incl. non-ASCII/empty/large, "
    "bytes, date, datetime naive/aware, pd.Timestamp, lists and str-keyed dicts nesting these to depth 3, 1-d numpy arrays of the 7 supported dtypes incl. empty, "
    "pd.Index/Series/DataFrame incl. empty and indexed, InMemoryPartition/OnDiskPartition of such values) or an exception from a catalogue (builtin, importable custom "
    "with message constructor, two required args, no-arg constructor, function-local class, classes nested one and two levels inside another class with a same-named top-level decoy, a class in a module that only the body imports (replayed in another process in which that module is not loaded), NonMemoizedException subclass) x backend {filesystem, filesystem+cache 256 B..16 MiB (so that weak-referenceable results oversize for the cache occur), memory} "
    "x modifier {plain, ignore_result, force_local, monitor_progress, force_local().monitor_progress(), ignore_result().ignore_result(False)}. A table-driven memento function returns/raises it. Oracle: call 1 runs the body exactly once and returns the object; "
    "calls 2-3 and a call after reopening the store run nothing and return a typed-equal value (same ResultType for partitions); memento().result_type == ResultType.from_object(value read back); "
    "the object returned by call 1 is still fully usable; exceptions replay as the same class when Class(message) can be built else MementoException, original message contained; "
    "NonMemoizedException is never recorded; call_batch([a, a']) with a memoized and a' new runs only a' and returns the memoized value next to the new one; forget(a) makes exactly call a run again and no other. Non-trivial = anything but a bare scalar literal; distinct by (type shape, backend, modifier)."
    " Round 5: text (string values, exception messages, dictionary keys) may contain lone surrogates; after the forget step every call of the function is forgotten at once (forget_all) while the caller still holds the last value returned, and both calls must run again exactly once and be memoized again."
    " Round 6: modifiers monitor_progress(), force_local().monitor_progress(), ignore_result().ignore_result(False); an equal-arguments step (a structured argument given again with every dictionary in the opposite insertion order is served, and forgetting under one spelling forgets the other)."
)
ASSUMPTIONS = [
    "frames/series stay <= 100 rows (above that the cache estimates size by random row sampling)",
    "exception messages are drawn without quotes/backslashes/newlines so that 'original message contained' is well defined for KeyError's repr",
    "equality is typed structural equality (vlib/values.py): NaN == NaN, 0.0 != -0.0, bool != int, dtype- and index-aware for numpy/pandas",
]
MANIFEST = {
    "level": "exploration",
    "technique": "property-based testing with Hypothesis: differential against the un-memoized value / execution trace over generated result values, backends and modifiers",
    "text": "Every generated (value, backend, modifier) case is run through first call, repeated calls, reopen, memento query and forget; values are compared with typed structural equality and body executions are counted through a side channel.",
    "note": "Trusts typed_equal and the side-channel execution counter (vlib/rt.py).",
}

_k = [0]


def _stores(case, d):
    kind = {"fs": "fs", "fsc": "fs", "mem": "memory"}[case["backend"]]
    cache = (case.get("budget_kb") or 2) / 1024.0 if case["backend"] == "fsc" else None
    return lambda: env.make_backend(kind, os.path.join(d, "store"), cache_mb=cache)


def _shape(d):
    t = d["t"]
    if t in ("list",):
        return ["l", sorted({str(_shape(x)) for x in d["v"]})]
    if t in ("dict", "impart", "odpart"):
        return [t, sorted({str(_shape(x)) for x in d["v"].values()})]
    if t == "nd":
        return "nd:" + d["dtype"] + (":empty" if not d["v"] else "")
    if t == "frame":
        return "frame:" + ",".join(sorted(c["dtype"] for c in d["cols"].values())) + (":idx" if d.get("index") else "")
    if t == "series":
        return "series:" + d["dtype"]
    if t in ("dt", "ts"):
        return t + ("z" if d.get("tz") is not None else "")
    if t == "float":
        return "float:" + (d["v"] if d["v"] in values.FLOAT_SPECIAL else "n")
    if t == "str":
        return "str:" + ("big" if d.get("n", 0) > 200 else ("empty" if d.get("v") == "" else "s"))
    return t


def expected_result_type(v):
    """The result type the documentation assigns to a value - written independently of ResultType.from_object."""
    import datetime
    import numpy as np
    import pandas as pd
    if v is None:
        return "null"
    if v is True or v is False:
        return "boolean"
    if isinstance(v, str):
        return "string"
    if isinstance(v, bytes):
        return "binary"
    if isinstance(v, (int, float)):
        return "number"
    if isinstance(v, datetime.datetime):
        return "timestamp"
    if isinstance(v, datetime.date):
        return "date"
    if isinstance(v, list):
        return "list_result"
    if isinstance(v, dict):
        return "dictionary"
    if isinstance(v, pd.Index):
        return "index"
    if isinstance(v, pd.Series):
        return "series"
    if isinstance(v, pd.DataFrame):
        return "data_frame"
    if isinstance(v, np.ndarray):
        return {"bool": "array_boolean"}.get(str(v.dtype), "array_" + str(v.dtype))
    if isinstance(v, Partition):
        return "partition"
    raise AssertionError(type(v))


def _same_kind(a, b):
    if isinstance(a, Partition) or isinstance(b, Partition):
        return isinstance(a, Partition) and isinstance(b, Partition)
    return type(a) is type(b) or ResultType.from_object(a) == ResultType.from_object(b) and type(a).__name__ == type(b).__name__


def _equal(a, b):
    if isinstance(a, Partition) and isinstance(b, Partition):
        try:
            ka, kb = list(a.list_keys()), list(b.list_keys())
            return ka == kb and all(values.typed_equal(a.get(k), b.get(k)) for k in ka)
        except Exception:
            return False
    return values.typed_equal(a, b)


def _modified(fn, modifier):
    """the function under a caller-side modifier; everything but ignore_result leaves the call's result as it is"""
    return {"plain": lambda: fn, "ignore_result": lambda: fn.ignore_result(), "force_local": lambda: fn.force_local(),
            "monitor_progress": lambda: fn.monitor_progress(), "force_local+monitor_progress": lambda: fn.force_local().monitor_progress(),
            "ignore_result_off": lambda: fn.ignore_result().ignore_result(False)}[modifier]()


def _replay_in_child(k, modifier):
    """forked child: forget that the lazily imported exception module was ever loaded, then make the (memoized) call"""
    import sys
    import vlib
    sys.modules.pop("vlib.lazyerrs", None)
    if hasattr(vlib, "lazyerrs"):
        delattr(vlib, "lazyerrs")
    rt.take()
    fn = _modified(tfuncs.val, modifier)
    try:
        v = fn(k)
        res = {"kind": "ok", "value": repr(v)[:100]}
    except Exception as e:
        res = {"kind": "exc", "module": type(e).__module__, "qualname": type(e).__qualname__, "msg": str(e)[:200]}
    res["runs"] = len([r for r in rt.take() if r[0] == "val"])
    return res


labels_extra = []


def execute(case, scratch):
    del labels_extra[:]
    out = core.Outcome()
    d = env.fresh_dir(scratch, "c02-")
    try:
        mk = _stores(case, d)
        st = mk()
        env.set_env(d, {"c": st})
        _k[0] += 1
        k, k_other = _k[0] * 2, _k[0] * 2 + 1
        rt.take()
        spec = case["result"]
        is_exc = "exc" in spec
        fn = tfuncs.val
        call = _modified(fn, case["modifier"])
        if is_exc:
            rt.TABLE[("val", k)] = lambda: tfuncs.raise_kind(spec["exc"], spec["msg"])
        else:
            rt.TABLE[("val", k)] = lambda: values.build(spec)
        rt.TABLE[("val", k_other)] = lambda: "bystander"
        reference = None if is_exc else values.build(spec)

        def attempt(label):
            try:
                return ("ok", call(k))
            except Exception as e:
                return ("exc", e)

        fn(k_other)
        rt.take()
        results = []
        for i in range(3):
            kind, res = attempt("call %d" % (i + 1))
            runs = [r for r in rt.take() if r[0] == "val"]
            results.append((kind, res))
            expect_runs = 1 if i == 0 else 0
            if is_exc and spec["exc"] == "NotMemoized":
                expect_runs = 1
            if len(runs) != expect_runs:
                out.violation("call %d ran the body %d times (expected %d) for %s on %s/%s" % (
                    i + 1, len(runs), expect_runs, core.canon(spec)[:200], case["backend"], case["modifier"]),
                    symptom="runs", call=min(i + 1, 2), kind="exc" if is_exc else "value")
            _check_result(out, case, spec, reference, kind, res, i + 1, results[0])
            if out.violations:
                return _fin(out, case)
        # reopen: a new backend object on the same paths (cold cache); memory backend keeps its object
        if case["backend"] != "mem":
            env.set_env(d, {"c": mk()})
            kind, res = attempt("call after reopen")
            runs = [r for r in rt.take() if r[0] == "val"]
            expect_runs = 1 if (is_exc and spec["exc"] == "NotMemoized") else 0
            if len(runs) != expect_runs:
                out.violation("call after reopen ran the body %d times" % len(runs), symptom="runs", call="reopen")
            _check_result(out, case, spec, reference, kind, res, "after reopen", results[0])
        # a memoized exception replayed in another process, in which the module defining its class is not loaded yet
        if is_exc and spec["exc"] != "NotMemoized" and not out.violations:
            from vlib import proc
            r = proc.forkrun(_replay_in_child, k, case["modifier"])
            want_mod = {"LazyErr": "vlib.lazyerrs"}.get(spec["exc"])
            if r["runs"]:
                out.violation("replay in another process ran the body %d times" % r["runs"], symptom="runs", call="other-process")
            if r.get("kind") != "exc":
                out.violation("replay in another process returned %r instead of raising" % (r.get("value"),), symptom="exception-not-raised")
            elif want_mod and (r["module"], r["qualname"]) != (want_mod, spec["exc"]):
                out.violation("replay in a process that had not imported %s raised %s.%s for a recorded %s (its class can be rebuilt from its message)" % (
                    want_mod, r["module"], r["qualname"], spec["exc"]), symptom="exception-class", exc=spec["exc"], where="other-process")
            labels_extra.append("exception-replayed-in-another-process")
        # recorded result type matches the value read back
        try:
            mem = fn.memento(k)
        except Exception as e:
            sig = lib_exception_signature(e)
            if sig is None:
                raise
            out.violation("memento() raised %r" % (e,), symptom="exception", **sig)
            return _fin(out, case)
        if is_exc and spec["exc"] == "NotMemoized":
            if mem is not None:
                out.violation("a NonMemoizedException was recorded", symptom="non-memoized-recorded")
        elif mem is None:
            out.violation("no memento after the calls", symptom="no-memento")
        else:
            env_storage = m.Environment.get().get_cluster("c").storage
            back = env_storage.read_result(mem)
            rt_rec = mem.invocation_metadata.result_type
            if rt_rec != ResultType.from_object(back):
                out.violation("recorded result type %s but value read back is %s" % (rt_rec, ResultType.from_object(back)),
                              symptom="result-type-mismatch")
            want_rt = "exception" if is_exc else expected_result_type(reference)
            if rt_rec.name != want_rt:
                out.violation("recorded result type %s for a %s" % (rt_rec.name, want_rt), symptom="result-type-mismatch")
            if not is_exc and expected_result_type(back) != want_rt:
                out.violation("value read back is a %s, the body returned a %s" % (expected_result_type(back), want_rt),
                              symptom="result-type-mismatch")
        # value handed back by call 1 is still usable
        if not is_exc and case["modifier"] != "ignore_result" and results[0][0] == "ok":
            first = results[0][1]
            try:
                if not _equal(first, reference):
                    out.violation("value returned by the first call no longer equals the computed value", symptom="first-value-unusable")
            except Exception as e:
                out.violation("value returned by the first call is no longer usable: %r" % (e,), symptom="first-value-unusable")
        # the batch entry point is the same function: a memoized element followed by a new one
        if not out.violations and not (is_exc and spec["exc"] == "NotMemoized") and case["modifier"] != "ignore_result":
            k_new = -k
            rt.TABLE[("val", k_new)] = lambda: "fresh-element"
            rt.take()
            try:
                got = call.call_batch([{"k": k}, {"k": k_new}], raise_first_exception=False)
            except Exception as e:
                sig = lib_exception_signature(e)
                if sig is None:
                    raise
                out.violation("call_batch([memoized, new]) raised %r" % (e,), symptom="exception", **sig)
                return _fin(out, case)
            bruns = [r[1]["k"] for r in rt.take() if r[0] == "val"]
            if bruns != [k_new]:
                out.violation("call_batch([memoized k, new k']) ran the bodies of %r, expected only the new element" % (bruns,), symptom="batch-runs")
            if not (isinstance(got, list) and len(got) == 2 and isinstance(got[1], str) and got[1] == "fresh-element"):
                out.violation("call_batch([memoized k, new k']) returned %s; the new element computes 'fresh-element'" % _r(got), symptom="batch-new-element-wrong")
            elif is_exc:
                want_msg = "fixed text" if spec["exc"] == "NoArgErr" else (spec["msg"] + "/second" if spec["exc"] == "TwoArgErr" else spec["msg"])
                if not isinstance(got[0], Exception) or not _has_msg(got[0], want_msg):
                    out.violation("call_batch slot of the memoized exception holds %s" % _r(got[0]), symptom="batch-memoized-element-wrong")
            elif not _equal(got[0], reference):
                out.violation("call_batch slot of the memoized element holds %s, the body computed %s" % (_r(got[0]), _r(reference)), symptom="batch-memoized-element-wrong")
        # forget exactly this call
        if not out.violations and not (is_exc and spec["exc"] == "NotMemoized"):
            fn.forget(k)
            attempt("after forget")
            runs_k = [r for r in rt.take() if r[0] == "val"]
            fn(k_other)
            runs_other = [r for r in rt.take() if r[0] == "val"]
            if len(runs_k) != 1:
                out.violation("after forget(k) the call ran %d times" % len(runs_k), symptom="forget-ineffective")
            if runs_other:
                out.violation("forget(k) made another memoized call run again", symptom="forget-overreach")
            held = attempt("after forget 2")   # (kept: the caller still holds this value during what follows)
            if [r for r in rt.take() if r[0] == "val"] and not (is_exc and spec["exc"] == "NotMemoized"):
                out.violation("after forget and recompute the result is not memoized again", symptom="not-rememoized")
            # forget every call of the function at once: both calls run again exactly once, then are memoized again
            if not out.violations:
                fn.forget_all()
                again = attempt("after forget_all")
                runs_k = [r for r in rt.take() if r[0] == "val"]
                fn(k_other)
                runs_other = [r for r in rt.take() if r[0] == "val"]
                if len(runs_k) != 1 or len(runs_other) != 1:
                    out.violation("after forget_all() the call ran %d times and the other call of the function %d times (expected 1 and 1)" % (
                        len(runs_k), len(runs_other)), symptom="forget-all-ineffective")
                _check_result(out, case, spec, reference, again[0], again[1], "after forget_all", results[0], ran=True)
                again2 = attempt("after forget_all 2")
                if [r for r in rt.take() if r[0] == "val"]:
                    out.violation("after forget_all and recompute the result is not memoized again", symptom="not-rememoized")
                _check_result(out, case, spec, reference, again2[0], again2[1], "after forget_all 2", results[0])
                del held
        # equal arguments: a structured argument given a second time with every dictionary in it built in the opposite
        # insertion order is the same call (served, not run); forgetting it under one spelling forgets it under the other
        if not out.violations and case.get("eqarg") is not None:
            from vlib import afuncs, argspec
            from checks.c04 import _permute_dicts
            a1 = argspec.build_arg(case["eqarg"])
            a2 = _permute_dicts(argspec.build_arg(case["eqarg"]), True)
            rt.take()
            r1 = afuncs.g1(a1)
            n1 = len([x for x in rt.take() if x[0] == "g1"])
            r2 = afuncs.g1(a2)
            n2 = len([x for x in rt.take() if x[0] == "g1"])
            if n1 != 1 or n2 != 0 or r1 != r2:
                out.violation("g1(a) ran %d times and g1(a with dictionaries in the opposite insertion order) %d times (expected 1 and 0), results %r / %r" % (n1, n2, r1, r2),
                              symptom="equal-arguments-run-twice")
            else:
                afuncs.g1.forget(a2)
                afuncs.g1(a1)
                n3 = len([x for x in rt.take() if x[0] == "g1"])
                if n3 != 1:
                    out.violation("after forget(a with dictionaries in the opposite insertion order) the call g1(a) ran %d times (expected 1)" % n3,
                                  symptom="forget-ineffective", equal_spelling=True)
            labels_extra.append("equal-arguments-other-dict-order")
        return _fin(out, case)
    except Exception as e:
        sig = lib_exception_signature(e)
        if sig is None:
            raise
        out.violation("unexpected %r" % (e,), symptom="exception", **sig)
        return _fin(out, case)
    finally:
        rt.TABLE.clear()
        env.rm(d)


def _check_result(out, case, spec, reference, kind, res, which, first, ran=False):
    is_exc = "exc" in spec
    if is_exc:
        if kind != "exc":
            out.violation("call %s returned %r instead of raising" % (which, res), symptom="exception-not-raised")
            return
        name = spec["exc"]
        msg = spec["msg"] if name not in ("NoArgErr",) else "fixed text"
        if name == "TwoArgErr":
            msg = spec["msg"] + "/second"
        first_call = which == 1 or ran   # the body itself raised (not a replay of the record)
        if name == "LazyErr":
            ok_class = type(res).__module__ == "vlib.lazyerrs" and type(res).__qualname__ == "LazyErr"
        elif name in tfuncs.REBUILDABLE and name not in ("ValueError", "KeyError", "ZeroDivisionError"):
            ok_class = type(res) is tfuncs.REBUILDABLE[name]
        elif first_call or name == "NotMemoized":
            ok_class = type(res).__name__ == name
        elif name in tfuncs.REBUILDABLE:
            ok_class = type(res) is tfuncs.REBUILDABLE[name]
        else:
            ok_class = isinstance(res, MementoException)
        if not ok_class:
            out.violation("call %s raised %s(%s) for a recorded %s" % (which, type(res).__name__, str(res)[:120], name),
                          symptom="exception-class", exc=name)
        if not _has_msg(res, msg):
            out.violation("call %s: original message %r not contained in %r" % (which, msg, str(res)[:200]),
                          symptom="exception-message", exc=name)
        return
    if kind == "exc":
        sig = lib_exception_signature(res) or {"exc": type(res).__name__, "where": "?"}
        out.violation("call %s raised %r" % (which, res), symptom="exception", **sig)
        return
    if case["modifier"] == "ignore_result":
        if res is not None:
            out.violation("ignore_result call %s returned %r" % (which, res), symptom="ignore-result-returned")
        return
    if not _equal(res, reference):
        out.violation("call %s returned %s, the body computes %s" % (which, _r(res), _r(reference)), symptom="value-differs",
                      rtype=str(ResultType.from_object(reference).name))
    elif not _same_kind(res, reference):
        out.violation("call %s returned a %s for a %s" % (which, type(res).__name__, type(reference).__name__),
                      symptom="type-differs")


def _has_msg(exc, msg):
    """the original message is part of the exception's text (str(KeyError(m)) is repr(m), which escapes unprintable characters)"""
    texts = [str(exc)] + [a for a in getattr(exc, "args", ()) if isinstance(a, str)]
    return any(msg in t or repr(msg)[1:-1] in t for t in texts)


def _r(v):
    s = repr(v)
    return s if len(s) < 160 else s[:150] + "..."


def _fin(out, case):
    spec = case["result"]
    if "exc" in spec:
        shape = "exc:" + spec["exc"]
        out.nontrivial = True
    else:
        shape = _shape(spec)
        out.nontrivial = not (isinstance(shape, str) and shape in ("int", "str:s", "bool", "float:n", "none"))
    out.labels = list(labels_extra) + ["backend:" + case["backend"], "mod:" + case["modifier"],
                  "shape:" + (shape.split(":")[0] + (":empty" if shape.endswith(":empty") else "") if isinstance(shape, str) and not shape.startswith(("exc", "float")) else (shape if isinstance(shape, str) else shape[0]))]
    out.nt_key = [shape, case["backend"], case["modifier"]]
    return out


def replay(case, ctx):
    return execute(case, ctx.scratch)


def strategy():
    from hypothesis import strategies as st
    S = values.strategies()
    msg = st.text(alphabet="abcdefghij XYZ0123456789.,:;-_()é\udce9", min_size=0, max_size=20)
    exc = st.builds(lambda k, mm: {"exc": k, "msg": mm},
                    st.sampled_from(["ValueError", "KeyError", "ZeroDivisionError", "CustomErr", "TwoArgErr", "NoArgErr", "LocalErr", "NotMemoized", "NestedErr", "DeepErr", "LazyErr"]), msg)
    big = st.sampled_from([{"t": "str", "n": 3000, "c": "b"}, {"t": "bytes", "n": 5000, "c": "ab"},
                           {"t": "nd", "dtype": "int64", "v": list(range(60))}, {"t": "nd", "dtype": "float64", "v": [float(i) for i in range(700)]},
                           {"t": "nd", "dtype": "int8", "v": [i % 100 for i in range(2500)]}])
    nested = S.containers(st.one_of(S.scalar, S.nd(), S.series(), S.frame(), S.index, S.result_value))
    result = st.one_of(S.scalar, S.nd(), S.nd(), S.series(), S.frame(), S.frame(), S.index, nested, nested,
                       S.result_value, S.partition, S.partition, exc, exc, big)
    from vlib import argspec
    A = argspec.strategies()
    # an argument that contains at least one dictionary with two keys (somewhere: top level, in a list, in a dictionary)
    two = st.dictionaries(S.text_key if hasattr(S, "text_key") else S.ident, A.simple, min_size=2, max_size=3).map(lambda v: {"t": "dict", "v": v})
    eqarg = st.one_of(st.none(), st.none(), two, st.lists(two, min_size=1, max_size=2).map(lambda v: {"t": "list", "v": v}),
                      st.builds(lambda a, b: {"t": "dict", "v": {"p": a, "q": {"t": "list", "v": [b]}}}, two, two))
    return st.builds(
        lambda r, b, kb, mod, ea: {"result": r, "backend": b, "budget_kb": kb, "modifier": mod, "eqarg": ea},
        result, st.sampled_from(["fs", "fsc", "fsc", "mem"]), st.sampled_from([0.25, 2, 2, 64, 16384]),
        st.sampled_from(["plain", "plain", "plain", "ignore_result", "ignore_result", "force_local", "force_local", "monitor_progress", "force_local+monitor_progress", "ignore_result_off"]), eqarg)


def run_shard(ctx):
    stats = core.Stats()
    n = 20000 if ctx.tier == "thorough" else 450
    core.hyp_search(strategy(), lambda c: execute(c, ctx.scratch), stats, max_examples=n,
                    seed=core.hash64(ctx.seed, ID, ctx.shard), findings=ctx.findings,
                    deadline_s=(ctx.deadline - time.time()) if ctx.deadline else None)
    return stats

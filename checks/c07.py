"""C07 - result blobs are content-addressed, deduplicated and immutable once referenced."""
import hashlib
import itertools
import os
import time

from twosigma.memento.types import DataSourceKey

from vlib import core, env, storeops, storegen, fsaudit, values

ID = "C07"
LEVEL = "exploration"
SHARDS = {"quick": 16, "thorough": 16}
RULE = (
    "C05-style histories on the filesystem backend (with and without cache, shared or separate metadata path), extended with "
    "key-override memoizes onto shared override keys (including a None result, which removes the pointer) and values drawn from a small pool so "
    "that different calls often serialize to identical bytes. After every step, through the DataSource API: (1) every key listed under c/ hashes "
    "(SHA-256 of the bytes read through its current versioned key) to its own name; (2) live mementos without override whose stored bytes are equal "
    "carry the same content key and version, and a memoize whose content key already existed opens no file for writing under c/ (audit hook); "
    "(3) every live memento still reads exactly the digest recorded when it was created. Generators: all sequences up to length 3/4 over a 13-op "
    "alphabet (exhaustive) + Hypothesis histories + a fault family: for 6 values x {cache, no cache} (and for two writes to an override key that already holds another call's result, whose memento must keep reading its own bytes) every mutating filesystem operation of one memoize is crashed / failed in every variant of C08, "
    "then two fault-free memoizes of the same bytes by other calls must yield mementos whose content key is shared, readable, hashes to its name and reads back the value, and no listed content key may hold bytes that hash to something else; + a race family: two different calls publishing different values under one override key are interleaved by C09's deterministic scheduler (every one-preemption schedule; every 3rd yield point in quick) and afterwards each call must still be served the bytes of its own result. Non-trivial = a duplicate-bytes memoize, an override overwrite while an older memento of that key "
    "is live, or a forget between write and re-read; distinct by op-kind sequence."
    " Round 5: the exhaustive alphabet also stores a partition under the override key (index and members beneath the key)."
)
ASSUMPTIONS = [
    "uses StorageBackendBase._data_source (DataSource API) rather than raw paths, so a layout change is not an alarm",
    "global random state is re-seeded identically before every operation (user code may do so; version ids must not depend on it)",
    "single process; no power-loss model",
]
MANIFEST = {
    "level": "exploration",
    "technique": "model-based property testing: enumerated + Hypothesis-generated storage histories with a whole-store integrity invariant (hash/key agreement, dedup, immutability) after every step; exhaustive fault-point enumeration of one memoize; one-preemption schedule enumeration of two writers of one override key",
    "text": "The store-wide integrity invariant is evaluated after every operation of every generated history on the filesystem backends (small scope exhaustive, longer histories sampled), after every crash/error point of an interrupted memoize followed by fault-free writes of the same bytes, and after every one-preemption interleaving of two calls publishing under one override key.",
    "note": "Trusts SHA-256 and the DataSource read path used to observe; bounded alphabets.",
}


class CasSession(storeops.Session):
    def __init__(self, *a, **k):
        super().__init__(*a, **k)
        self.digest_at_creation = {}   # (store idx, model key) -> (content key repr, digest)
        self.nt = set()

    def _c_keys(self, s):
        ds = s.backend._data_source
        return {k.key for k in ds.list_keys_nonversioned(DataSourceKey("c"))}

    def op_memoize(self, fnkey, arg, vdesc, override=None):
        before = [self._c_keys(s) for s in self.stores]
        k = self.key(fnkey, arg)
        if override:
            if any(e.get("override") == override and mk != k for mk, e in self.model.items()):
                self.nt.add("override-overwrite-live")
        watches = []
        # run the plain operation store by store under an audit watch of the data root
        real_stores = self.stores
        first = True
        for i, s in enumerate(real_stores):
            self.stores = [s]
            with fsaudit.Watch(s.data_path) as w:
                if first:
                    super().op_memoize(fnkey, arg, vdesc, override)
                else:
                    # the model was already updated by the first store; apply to this store only
                    value = values.build(vdesc)
                    self.keep.append(value)
                    mem = storeops.make_memento(self.rwa(fnkey, arg), value)
                    self.guarded(s, "memoize", s.backend.memoize, override, mem, value)
            first = False
            watches.append(w)
        self.stores = real_stores
        for i, s in enumerate(self.stores):
            r = self.rwa(fnkey, arg).fn_reference_with_arg_hash()
            ok, mem = self.guarded(s, "get_memento", s.backend.get_memento, r)
            if not ok or mem is None:
                continue
            ck = mem.content_key
            self.digest_at_creation.pop((i, k), None)
            if ck is None:
                continue
            dig = self._digest(s, ck)
            if dig is None:
                self.fail(s, "unreadable-after-store", "bytes of %r unreadable right after memoize" % (ck,), op="memoize")
                continue
            self.digest_at_creation[(i, k)] = (ck.key, ck.version, dig)
            if not override and ck.key in before[i]:
                self.nt.add("duplicate-bytes")
                wr = [e for e in watches[i].mutations()
                      if os.path.relpath(e["path"], s.data_path).startswith("c" + os.sep)]
                if wr:
                    self.fail(s, "duplicate-object-written",
                              "content key %s already existed, yet memoize performed %d mutating operations under c/ (e.g. %s %s)" % (
                                  ck.key[:14], len(wr), wr[0]["event"], os.path.relpath(wr[0]["path"], s.data_path)), op="memoize")

    def _digest(self, s, ck):
        try:
            with s.backend._data_source.input_versioned(ck) as f:
                return hashlib.sha256(f.read()).hexdigest()
        except (IOError, OSError):
            return None

    def op_forget_call(self, fnkey, arg):
        if self.model:
            self.nt.add("forget-between")
        super().op_forget_call(fnkey, arg)

    def integrity(self):
        for i, s in enumerate(self.stores):
            ds = s.backend._data_source
            # (1) hash/key agreement over the whole store
            for key in sorted(self._c_keys(s)):
                try:
                    vk = ds.get_versioned_key(DataSourceKey(key))
                    with ds.input_versioned(vk) as f:
                        h = hashlib.sha256(f.read()).hexdigest()
                except (IOError, OSError) as e:
                    self.fail(s, "content-key-unreadable", "content key %s listed but unreadable: %r" % (key, e))
                    continue
                if "c/" + h != key:
                    self.fail(s, "hash-key-mismatch", "bytes under %s hash to %s" % (key, h))
            # (3) immutability of what live mementos reference, (2) dedup
            by_digest = {}
            for (si, mk), (ckey, cver, dig) in list(self.digest_at_creation.items()):
                if si != i:
                    continue
                if mk not in self.model:
                    self.digest_at_creation.pop((si, mk))
                    continue
                from twosigma.memento.types import VersionedDataSourceKey
                now = self._digest(s, VersionedDataSourceKey(ckey, cver))
                if now != dig:
                    self.fail(s, "memento-bytes-changed",
                              "memento of %s now reads %s under its content key %s#%s; it stored %s" % (
                                  mk[0], "nothing" if now is None else now[:12], ckey[:20], cver[:8], dig[:12]))
                if not self.model[mk].get("override"):
                    by_digest.setdefault(dig, set()).add((ckey, cver))
            for dig, cks in by_digest.items():
                if len(cks) > 1:
                    self.fail(s, "not-deduplicated", "identical bytes (%s) stored under %d different content keys/versions: %s" % (
                        dig[:12], len(cks), sorted(cks)))


# ------------------------------------------------------------------------------------------
# fault family: the integrity invariant must also hold on a store whose last write was interrupted
# ------------------------------------------------------------------------------------------

def _fault_child(spec):
    """forked child: memoize (f#1, 0) -> value under the fault plan (storage level, no runner)"""
    from vlib import faults as _faults, hfuncs
    refs = hfuncs.refs()
    st = storeops.Store("fsc" if spec["cache"] else "fs", spec["root"], budget_mb=0.5, shared_meta=True)
    value = values.build(spec["value"])
    if spec.get("pre"):
        # another live entry first, so that the directories already exist
        pv = values.build({"t": "str", "v": "pre-existing"})
        st.backend.memoize(None, storeops.make_memento(refs["fa#10"].with_args(0), pv), pv)
    if spec.get("override"):
        # another call has published a different result under the same override key before
        ov = values.build({"t": "str", "v": "earlier-under-the-override-key"})
        st.backend.memoize(spec["override"], storeops.make_memento(refs["f2#1"].with_args(7), ov), ov)
    mem = storeops.make_memento(refs["f#1"].with_args(0), value)
    with _faults.Controller(spec["root"], spec.get("plan")) as ctl:
        try:
            st.backend.memoize(spec.get("override"), mem, value)
            err = None
        except (IOError, OSError) as e:
            err = repr(e)
    return {"events": ctl.events, "fired": ctl.fired, "error": err}


def _fault_verify(spec):
    """forked child (fresh process, no faults): two more calls store the same bytes; then the whole-store invariant"""
    from vlib import hfuncs
    from twosigma.memento.types import VersionedDataSourceKey
    refs = hfuncs.refs()
    st = storeops.Store("fsc" if spec["cache"] else "fs", spec["root"], budget_mb=0.5, shared_meta=True)
    value = values.build(spec["value"])
    problems = []
    cks = {}
    if spec.get("override"):
        # the memento created before the fault must still read the bytes it stored
        rwa0 = refs["f2#1"].with_args(7)
        try:
            mem0 = st.backend.get_memento(rwa0.fn_reference_with_arg_hash())
            back0 = None if mem0 is None else st.backend.read_result(mem0)
            if mem0 is None:
                problems.append(["lost", "the memento stored under the override key before the fault is gone"])
            elif back0 != "earlier-under-the-override-key":
                problems.append(["memento-bytes-changed", "the memento stored under the override key before the fault now reads %r" % (back0,)])
        except (IOError, OSError) as e:
            problems.append(["memento-bytes-unreadable", "the memento stored under the override key before the fault can no longer read its bytes: %r" % (e,)])
        return problems
    for fnkey in ("f2#1", "f#1"):
        rwa = refs[fnkey].with_args(0)
        try:
            st.backend.memoize(None, storeops.make_memento(rwa, value), value)
            mem = st.backend.get_memento(rwa.fn_reference_with_arg_hash())
        except Exception as e:  # noqa
            sig = storeops.lib_exception_signature(e)
            if sig is None:
                raise
            problems.append(["exception", "memoize/get_memento of %s after the fault raised %r" % (fnkey, e)])
            continue
        if mem is None:
            problems.append(["lost", "no memento for %s right after a fault-free memoize" % fnkey])
            continue
        ck = mem.content_key
        if value is None:
            continue
        if ck is None:
            problems.append(["no-content-key", "memento of %s has no content key" % fnkey])
            continue
        cks[fnkey] = [ck.key, ck.version]
        try:
            with st.backend._data_source.input_versioned(ck) as f:
                h = hashlib.sha256(f.read()).hexdigest()
        except (IOError, OSError) as e:
            problems.append(["memento-bytes-unreadable", "memento of %s references %s#%s which cannot be read: %r" % (fnkey, ck.key[:14], ck.version[:8], e)])
            continue
        if "c/" + h != ck.key:
            problems.append(["hash-key-mismatch", "memento of %s references %s whose bytes hash to %s" % (fnkey, ck.key[:14], h[:12])])
        try:
            back = st.backend.read_result(mem)
            if not values.typed_equal(back, value):
                problems.append(["wrong-value", "read_result of %s gives %r" % (fnkey, back)])
        except Exception as e:  # noqa
            problems.append(["read-raised", "read_result of %s raised %r" % (fnkey, e)])
    if len(cks) == 2 and cks["f2#1"] != cks["f#1"]:
        problems.append(["not-deduplicated", "identical bytes stored under two content keys/versions: %r" % (cks,)])
    ds = st.backend._data_source
    for k in sorted(x.key for x in ds.list_keys_nonversioned(DataSourceKey("c"))):
        try:
            vk = ds.get_versioned_key(DataSourceKey(k))
            with ds.input_versioned(vk) as f:
                h = hashlib.sha256(f.read()).hexdigest()
        except (IOError, OSError):
            continue  # a listed key that cannot be read at all carries no wrong bytes (C08 covers what calls then do)
        if "c/" + h != k:
            problems.append(["hash-key-mismatch", "bytes under listed content key %s hash to %s" % (k[:14], h[:12])])
    return problems


def execute_fault(case, scratch):
    """case = {"kind":"fault","value":desc,"cache":bool,"pre":bool}: every mutating operation of the memoize x every variant"""
    from vlib import proc, faults
    from checks.c08 import variants_for
    out = core.Outcome()
    base = {"value": case["value"], "cache": case["cache"], "pre": case.get("pre", False), "override": case.get("override")}
    d0 = env.fresh_dir(scratch, "c07f-")
    try:
        dry = proc.forkrun(_fault_child, dict(base, root=d0, plan=None))
    finally:
        env.rm(d0)
    npts = 0
    for ev in dry["events"]:
        for variant in variants_for(ev):
            npts += 1
            d = env.fresh_dir(scratch, "c07f-")
            try:
                r = proc.forkrun(_fault_child, dict(base, root=d, plan={"event": ev["i"], "variant": variant, "k": None}),
                                 crash_code=faults.CRASH_CODE)
                problems = proc.forkrun(_fault_verify, dict(base, root=d))
                for sym, msg in problems:
                    out.violation("after %s at operation %d (%s %s) of memoize(%s): %s" % (
                        variant, ev["i"], ev["event"], ev["rel"].split(os.sep)[0], core.canon(case["value"])[:80], msg),
                        symptom=sym, fault=variant, backend="fsc" if case["cache"] else "fs")
                out.labels.append("fault:" + variant)
                if r.get("crashed"):
                    out.labels.append("fault-crashed")
            finally:
                env.rm(d)
            if out.violations:
                break
        if out.violations:
            break
    out.labels = sorted(set(out.labels)) + ["family:fault"]
    out.nontrivial = True
    out.nt_key = case
    out.render = {"fault_family": case, "fault_points": npts, "operations": [(e["event"], e["rel"]) for e in dry["events"]]}
    out.excluded = 0
    return out


FAULT_CASES = [
    {"kind": "fault", "value": {"t": "str", "v": "payload-abc"}, "cache": False, "pre": False},
    {"kind": "fault", "value": {"t": "str", "v": "payload-abc"}, "cache": True, "pre": True},
    {"kind": "fault", "value": {"t": "list", "v": [{"t": "int", "v": "1"}, {"t": "str", "v": "x"}]}, "cache": False, "pre": True},
    {"kind": "fault", "value": {"t": "nd", "dtype": "int64", "v": [1, 2, 3]}, "cache": False, "pre": False},
    {"kind": "fault", "value": {"t": "str", "n": 20000, "c": "L"}, "cache": False, "pre": True},
    {"kind": "fault", "value": {"t": "dict", "v": {"a": {"t": "float", "v": "1.5"}}}, "cache": True, "pre": False},
    # the interrupted write goes to an override key under which another call has stored a result before
    {"kind": "fault", "value": {"t": "str", "v": "later-under-the-override-key"}, "cache": False, "pre": False, "override": "ov/shared"},
    {"kind": "fault", "value": {"t": "list", "v": [{"t": "int", "v": "2"}]}, "cache": False, "pre": True, "override": "exports/r#1"},
]


RACE_SCN = {"store": "cold", "shape": "override-shared", "backend": "fs", "threads": 2}


def execute_race(case, scratch):
    """
    case = {"kind": "race", "preemptions": [[yield index, thread]]}: two different calls publish different values under
    one override key, interleaved by the deterministic scheduler of C09; afterwards each call's memento must still read
    the bytes of its own result (the call is served its own value).
    """
    from vlib import proc
    from checks import c09
    out = core.Outcome()
    d = env.fresh_dir(scratch, "c07r-")
    try:
        res = proc.forkrun(c09._child, {"scenario": RACE_SCN, "base": d, "schedules": [case["preemptions"]]}, timeout=300)[0]
    finally:
        env.rm(d)
    for r in res["results"]:
        if "exc" in r:
            out.violation("racing writers of one override key: a caller raised %s: %s" % (r["exc"], r["msg"]), symptom="exception", exc=r["exc"], where=r.get("where"))
    for rr in res.get("recalls", []):
        if "exc" in rr:
            out.violation("after two racing writers of one override key (preemptions %r): reading the result of %s raised %s: %s" % (
                case["preemptions"], rr["fn"], rr["exc"], rr["msg"]), symptom="memento-bytes-unreadable", race=True)
        elif rr["ok"] != rr["want"]:
            out.violation("after two racing writers of one override key (preemptions %r, taken at %s): the memento of %s now reads %r; it stored %r" % (
                case["preemptions"], [t[3] for t in res["taken"]], rr["fn"], rr["ok"], rr["want"]), symptom="memento-bytes-changed", race=True)
    out.nontrivial = bool(res["taken"])
    out.labels = ["family:race"] + (["race:preemption-taken"] if res["taken"] else [])
    out.nt_key = ["race", [list(t[:3]) for t in res["taken"]]]
    out.render = {"race": RACE_SCN, "preemptions": case["preemptions"], "taken": res["taken"]}
    return out


def race_cases(scratch, stride):
    from checks import c09
    ref = c09.sequential_reference(RACE_SCN, scratch)
    return [{"kind": "race", "preemptions": [[g, t]]} for g in range(0, ref["yields"], stride) for t in range(2)]


def execute(case, scratch):
    if case.get("kind") == "fault":
        return execute_fault(case, scratch)
    if case.get("kind") == "race":
        return execute_race(case, scratch)
    d = env.fresh_dir(scratch, "c07-")
    try:
        sess = CasSession(d, case)
        out = sess.run(extra_invariant=lambda s: s.integrity())
        out.labels = sorted(set(out.labels) | sess.nt)
        out.nontrivial = bool(sess.nt)
        out.nt_key = storegen.op_shape(case)
        return out
    finally:
        env.rm(d)


def replay(case, ctx):
    return execute(case, ctx.scratch)


def small_scope(max_len):
    A = {"t": "str", "v": "A"}
    B = {"t": "list", "v": [{"t": "int", "v": "1"}]}
    N = {"t": "none"}
    P = {"t": "impart", "v": {"a": A, "b": B}}   # a partition: an index and its members, all stored beneath the override key
    alphabet = []
    for f, a in (("f#1", 0), ("f2#1", 0)):
        alphabet += [["memoize", f, a, A], ["memoize", f, a, B], ["memoize", f, a, A, "ov/x"],
                     ["memoize", f, a, B, "ov/x"], ["memoize", f, a, N, "ov/x"], ["memoize", f, a, P, "ov/x"], ["forget_call", f, a]]
    alphabet += [["reopen"]]
    for n in range(1, max_len + 1):
        for seq in itertools.product(alphabet, repeat=n):
            for shared in (True, False):
                yield {"budget_kb": 2, "shared_meta": shared, "backends": ["fs", "fsc"], "sweep": "none",
                       "ops": [list(o) for o in seq]}


def run_shard(ctx):
    stats = core.Stats()
    thorough = ctx.tier == "thorough"
    ex = lambda c: execute(c, ctx.scratch)  # noqa: E731
    dl = (lambda frac: max((ctx.deadline - time.time()) * frac, 5) if ctx.deadline else None)
    complete = core.enum_search(small_scope(4 if thorough else 3), ex, stats, findings=ctx.findings,
                                shard=ctx.shard, nshards=ctx.nshards, deadline_s=dl(0.6))
    stats.extra["exhaustive_sequences"] = stats.evaluations
    stats.extra["small_scope_complete"] = bool(complete)
    # fault family: a fixed list, spread over the shards (each case enumerates all its fault points)
    core.enum_search(FAULT_CASES, ex, stats, findings=ctx.findings, shard=ctx.shard, nshards=ctx.nshards, deadline_s=dl(0.8))
    # race family: every one-preemption interleaving (every 3rd yield point in quick) of two writers of one override key
    core.enum_search(race_cases(ctx.scratch, 1 if thorough else 3), ex, stats, findings=ctx.findings, shard=ctx.shard, nshards=ctx.nshards,
                     deadline_s=dl(0.8))
    core.hyp_search(
        storegen.history_strategy(80 if thorough else 30, backends=("fs", "fsc"), overrides=True, pool_values=True),
        ex, stats, max_examples=5000 if thorough else 110, seed=core.hash64(ctx.seed, ID, ctx.shard),
        findings=ctx.findings, deadline_s=dl(1.0))
    return stats

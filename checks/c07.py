"""C07 - result blobs are content-addressed, deduplicated and immutable once referenced."""
import hashlib
import itertools
import os
import time

from twosigma.memento.types import DataSourceKey

from vlib import core, env, storeops, storegen, fsaudit, values

ID = "C07"
LEVEL = "exploration"
SHARDS = {"quick": 16, "thorough": 16}
RULE = (
    "C05-style histories on the filesystem backend (with and without cache, shared or separate metadata path), extended with "
    "key-override memoizes onto shared override keys (including a None result, which removes the pointer) and values drawn from a small pool so "
    "that different calls often serialize to identical bytes. After every step, through the DataSource API: (1) every key listed under c/ hashes "
    "(SHA-256 of the bytes read through its current versioned key) to its own name; (2) live mementos without override whose stored bytes are equal "
    "carry the same content key and version, and a memoize whose content key already existed opens no file for writing under c/ (audit hook); "
    "(3) every live memento still reads exactly the digest recorded when it was created. Generators: all sequences up to length 3/4 over a 13-op "
    "alphabet (exhaustive) + Hypothesis histories. Non-trivial = a duplicate-bytes memoize, an override overwrite while an older memento of that key "
    "is live, or a forget between write and re-read; distinct by op-kind sequence."
)
ASSUMPTIONS = [
    "uses StorageBackendBase._data_source (DataSource API) rather than raw paths, so a layout change is not an alarm",
    "global random state is re-seeded identically before every operation (user code may do so; version ids must not depend on it)",
    "single process; no power-loss model",
]
MANIFEST = {
    "level": "exploration",
    "technique": "model-based property testing: enumerated + Hypothesis-generated storage histories with a whole-store integrity invariant (hash/key agreement, dedup, immutability) after every step",
    "text": "The store-wide integrity invariant is evaluated after every operation of every generated history on the filesystem backends; small scope is exhaustive, longer histories are sampled.",
    "note": "Trusts SHA-256 and the DataSource read path used to observe; bounded alphabets.",
}


class CasSession(storeops.Session):
    def __init__(self, *a, **k):
        super().__init__(*a, **k)
        self.digest_at_creation = {}   # (store idx, model key) -> (content key repr, digest)
        self.nt = set()

    def _c_keys(self, s):
        ds = s.backend._data_source
        return {k.key for k in ds.list_keys_nonversioned(DataSourceKey("c"))}

    def op_memoize(self, fnkey, arg, vdesc, override=None):
        before = [self._c_keys(s) for s in self.stores]
        k = self.key(fnkey, arg)
        if override:
            if any(e.get("override") == override and mk != k for mk, e in self.model.items()):
                self.nt.add("override-overwrite-live")
        watches = []
        # run the plain operation store by store under an audit watch of the data root
        real_stores = self.stores
        first = True
        for i, s in enumerate(real_stores):
            self.stores = [s]
            with fsaudit.Watch(s.data_path) as w:
                if first:
                    super().op_memoize(fnkey, arg, vdesc, override)
                else:
                    # the model was already updated by the first store; apply to this store only
                    value = values.build(vdesc)
                    self.keep.append(value)
                    mem = storeops.make_memento(self.rwa(fnkey, arg), value)
                    self.guarded(s, "memoize", s.backend.memoize, override, mem, value)
            first = False
            watches.append(w)
        self.stores = real_stores
        for i, s in enumerate(self.stores):
            r = self.rwa(fnkey, arg).fn_reference_with_arg_hash()
            ok, mem = self.guarded(s, "get_memento", s.backend.get_memento, r)
            if not ok or mem is None:
                continue
            ck = mem.content_key
            self.digest_at_creation.pop((i, k), None)
            if ck is None:
                continue
            dig = self._digest(s, ck)
            if dig is None:
                self.fail(s, "unreadable-after-store", "bytes of %r unreadable right after memoize" % (ck,), op="memoize")
                continue
            self.digest_at_creation[(i, k)] = (ck.key, ck.version, dig)
            if not override and ck.key in before[i]:
                self.nt.add("duplicate-bytes")
                wr = [e for e in watches[i].mutations()
                      if os.path.relpath(e["path"], s.data_path).startswith("c" + os.sep)]
                if wr:
                    self.fail(s, "duplicate-object-written",
                              "content key %s already existed, yet memoize performed %d mutating operations under c/ (e.g. %s %s)" % (
                                  ck.key[:14], len(wr), wr[0]["event"], os.path.relpath(wr[0]["path"], s.data_path)), op="memoize")

    def _digest(self, s, ck):
        try:
            with s.backend._data_source.input_versioned(ck) as f:
                return hashlib.sha256(f.read()).hexdigest()
        except (IOError, OSError):
            return None

    def op_forget_call(self, fnkey, arg):
        if self.model:
            self.nt.add("forget-between")
        super().op_forget_call(fnkey, arg)

    def integrity(self):
        for i, s in enumerate(self.stores):
            ds = s.backend._data_source
            # (1) hash/key agreement over the whole store
            for key in sorted(self._c_keys(s)):
                try:
                    vk = ds.get_versioned_key(DataSourceKey(key))
                    with ds.input_versioned(vk) as f:
                        h = hashlib.sha256(f.read()).hexdigest()
                except (IOError, OSError) as e:
                    self.fail(s, "content-key-unreadable", "content key %s listed but unreadable: %r" % (key, e))
                    continue
                if "c/" + h != key:
                    self.fail(s, "hash-key-mismatch", "bytes under %s hash to %s" % (key, h))
            # (3) immutability of what live mementos reference, (2) dedup
            by_digest = {}
            for (si, mk), (ckey, cver, dig) in list(self.digest_at_creation.items()):
                if si != i:
                    continue
                if mk not in self.model:
                    self.digest_at_creation.pop((si, mk))
                    continue
                from twosigma.memento.types import VersionedDataSourceKey
                now = self._digest(s, VersionedDataSourceKey(ckey, cver))
                if now != dig:
                    self.fail(s, "memento-bytes-changed",
                              "memento of %s now reads %s under its content key %s#%s; it stored %s" % (
                                  mk[0], "nothing" if now is None else now[:12], ckey[:20], cver[:8], dig[:12]))
                if not self.model[mk].get("override"):
                    by_digest.setdefault(dig, set()).add((ckey, cver))
            for dig, cks in by_digest.items():
                if len(cks) > 1:
                    self.fail(s, "not-deduplicated", "identical bytes (%s) stored under %d different content keys/versions: %s" % (
                        dig[:12], len(cks), sorted(cks)))


def execute(case, scratch):
    d = env.fresh_dir(scratch, "c07-")
    try:
        sess = CasSession(d, case)
        out = sess.run(extra_invariant=lambda s: s.integrity())
        out.labels = sorted(set(out.labels) | sess.nt)
        out.nontrivial = bool(sess.nt)
        out.nt_key = storegen.op_shape(case)
        return out
    finally:
        env.rm(d)


def replay(case, ctx):
    return execute(case, ctx.scratch)


def small_scope(max_len):
    A = {"t": "str", "v": "A"}
    B = {"t": "list", "v": [{"t": "int", "v": "1"}]}
    N = {"t": "none"}
    alphabet = []
    for f, a in (("f#1", 0), ("f2#1", 0)):
        alphabet += [["memoize", f, a, A], ["memoize", f, a, B], ["memoize", f, a, A, "ov/x"],
                     ["memoize", f, a, B, "ov/x"], ["memoize", f, a, N, "ov/x"], ["forget_call", f, a]]
    alphabet += [["reopen"]]
    for n in range(1, max_len + 1):
        for seq in itertools.product(alphabet, repeat=n):
            for shared in (True, False):
                yield {"budget_kb": 2, "shared_meta": shared, "backends": ["fs", "fsc"], "sweep": "none",
                       "ops": [list(o) for o in seq]}


def run_shard(ctx):
    stats = core.Stats()
    thorough = ctx.tier == "thorough"
    ex = lambda c: execute(c, ctx.scratch)  # noqa: E731
    dl = (lambda frac: max((ctx.deadline - time.time()) * frac, 5) if ctx.deadline else None)
    complete = core.enum_search(small_scope(4 if thorough else 3), ex, stats, findings=ctx.findings,
                                shard=ctx.shard, nshards=ctx.nshards, deadline_s=dl(0.6))
    stats.extra["exhaustive_sequences"] = stats.evaluations
    stats.extra["small_scope_complete"] = bool(complete)
    core.hyp_search(
        storegen.history_strategy(80 if thorough else 30, backends=("fs", "fsc"), overrides=True, pool_values=True),
        ex, stats, max_examples=1500 if thorough else 50, seed=core.hash64(ctx.seed, ID, ctx.shard),
        findings=ctx.findings, deadline_s=dl(1.0))
    return stats

"""C12 - whatever was stored stays listable and readable as names and code evolve."""
import copy
import os
import re
import time

from vlib import core, env, progs, progrun, proc
from vlib.excs import lib_exception_signature

ID = "C12"
LEVEL = "exploration"
SHARDS = {"quick": 16, "thorough": 16}
RULE = (
    "(A) strings (each also as an external FunctionReference, which must report exactly the name, cluster, module, function and version it was built from): cluster over letters, digits and . _ - + = : # @ without '::' (or no cluster), module = dotted identifiers, function = identifier or dotted qualname, "
    "version over the same alphabet incl. '::' (or none): parse_qualified_name(build(parts)) == parts. (B) store: the same cluster/version strings realised on a memento function in a fresh forked process, "
    "called twice (second call must be a hit), queried with memento() and listed with list_mementos() / list_memoized_functions() on filesystem and memory backends. "
    "(C) evolutions: a caller with a pinned explicit version calls an automatically-versioned callee; after the caller is memoized the callee is edited, re-versioned explicitly (also from one explicit version containing '#' and ':' to another), renamed, removed, moved to another cluster, stripped of its decorator (name now bound to a plain function) or replaced by a non-callable object under the same name, "
    "in the default or a named cluster, delivered in-process or by restart against the same store. Oracle: no read of stored metadata raises; the caller's entry is served (its body does not run) with the stored value; "
    "memento() is found; the stored invocation of the callee (and a stored function-valued argument referring to it) is reported external exactly when that callee version no longer exists (asserted for edit / re-version / rename / remove); listings contain the stored names. "
    "Non-trivial: A/B - a separator character (: # . @) inside cluster or version; C - an evolution that makes a referenced version vanish. Distinct by case."
    " Round 5: part C also runs with a callee that has two memento dependencies of its own."
)
ASSUMPTIONS = [
    "admissible clusters exclude the inherently ambiguous shape <ident>:<ident>#... (such a cluster-qualified name is also a valid cluster-less name); counted as excluded",
    "cluster and version strings are non-empty when given",
    "for a callee moved to another cluster only 'nothing raises / caller served' is asserted (whether the same code hash under another cluster name is 'the same version' is not specified)",
]
MANIFEST = {
    "level": "exploration",
    "technique": "property-based testing with Hypothesis: parse/build round trip over generated name strings, store round trip of realised names in fresh processes, generated caller/callee evolutions against a persistent store",
    "text": "Generated names are parsed back, realised on real memento functions and found again through calls, memento queries and listings; generated code evolutions are replayed against a persistent store and every metadata read must succeed with exact external-reference flags.",
    "note": "Trusts the fork-based process harness; alphabet as stated in the property.",
}

ALPHA = "abcXYZ019._-+=:#@"
AMBIG = re.compile(r"^[^:#]*:[^:#]*#")


def build_name(cluster, module, function, version):
    s = ""
    if cluster is not None:
        s += cluster + "::"
    s += module + ":" + function
    if version is not None:
        s += "#" + version
    return s


def exec_a(case):
    from twosigma.memento.reference import FunctionReference
    out = core.Outcome()
    parts = {"cluster": case["cluster"], "module": case["module"], "function": case["function"], "version": case["version"]}
    name = build_name(**parts)
    try:
        got = FunctionReference.parse_qualified_name(name)
    except Exception as e:
        sig = lib_exception_signature(e)
        if sig is None:
            raise
        out.violation("parse_qualified_name(%r) raised %r" % (name, e), symptom="parse-raised", **sig)
        got = None
    if got is not None and dict(got) != parts:
        out.violation("parse_qualified_name(%r) = %r, built from %r" % (name, dict(got), parts), symptom="parse-mismatch",
                      version_has_colon=":" in (parts["version"] or ""), cluster_has_sep=any(c in (parts["cluster"] or "") for c in ":#"))
    if not out.violations:
        # the same name as a reference to a function that does not exist in this process (an external reference, which is
        # also what a stored reference to a vanished version becomes): it must still carry exactly this name
        try:
            ref = FunctionReference.from_qualified_name(name, external=True, parameter_names=[])
            view = {"qualified_name": ref.qualified_name, "cluster": ref.cluster_name, "module": ref.module, "function": ref.function_name,
                    "without_version": ref.qualified_name_without_version, "without_cluster": ref.qualified_name_without_cluster}
        except Exception as e:
            sig = lib_exception_signature(e)
            if sig is None:
                raise
            out.violation("from_qualified_name(%r, external=True) raised %r" % (name, e), symptom="external-reference-raised", **sig)
            return out
        want = {"qualified_name": name, "cluster": parts["cluster"], "module": parts["module"], "function": parts["function"],
                "without_version": build_name(parts["cluster"], parts["module"], parts["function"], None),
                "without_cluster": build_name(None, parts["module"], parts["function"], parts["version"])}
        diff = sorted(k for k in want if view[k] != want[k])
        if diff:
            out.violation("external reference built from %r reports %s = %r, expected %r" % (name, diff[0], view[diff[0]], want[diff[0]]),
                          symptom="external-reference-name-differs", field=diff[0], version_has_double_colon="::" in (parts["version"] or ""))
    return out


def _special(s):
    return any(c in (s or "") for c in ":#.@")


def _prog_b(case):
    return {"pkg": "vpk", "modules": ["a"], "defs": [
        {"k": "fn", "mod": "a", "name": "f0", "memento": True, "version": case["version"], "cluster": case["cluster"],
         "pdef": None, "kwdef": None, "base": {"e": "lit", "v": 1}, "body": {"e": "x"}}]}


def exec_b(case, scratch):
    out = core.Outcome()
    d = env.fresh_dir(scratch, "c12b-")
    try:
        prog = _prog_b(case)
        spec = {"pkg": "vpk", "modules": ["a"], "store": os.path.join(d, "store"), "backend": case["backend"],
                "clusters": [case["cluster"]] if case["cluster"] is not None else [], "init_cells": progs.render_cells(prog),
                "steps": [{}], "probe": ["a", "f0"], "arg": 2, "cluster": case["cluster"]}
        res = proc.forkrun(progrun.run_names, spec)[0]
        want_qn = build_name(case["cluster"], "vpk.a", "f0", case["version"])
        if case["version"] is None and "ok" in res["qualified_name"]:
            # automatic version: take the computed one, but the rest of the name is still prescribed
            got = res["qualified_name"]["ok"]
            if not got.startswith(want_qn + "#"):
                out.violation("qualified name %r does not start with %r#" % (got, want_qn), symptom="name-differs")
            want_qn = got
        _common_probes(out, res, want_qn, "realised name", expect_run_first=True)
        if "ok" in res["parse"]:
            p = res["parse"]["ok"]
            if (p["cluster"], p["module"], p["function"]) != (case["cluster"], "vpk.a", "f0") or \
                    (case["version"] is not None and p["version"] != case["version"]):
                out.violation("stored name %r parses as %r" % (want_qn, p), symptom="parse-mismatch",
                              version_has_colon=":" in (case["version"] or ""), cluster_has_sep=any(c in (case["cluster"] or "") for c in ":#"))
        return out
    finally:
        env.rm(d)


def _common_probes(out, res, want_qn, label, expect_run_first):
    for k in ("call1", "call2", "qualified_name", "memento", "list_mementos", "list_functions", "parse"):
        if "exc" in res[k]:
            out.violation("%s: %s raised %s: %s (at %s)" % (label, k, res[k]["exc"], res[k]["msg"], res[k].get("where")),
                          symptom="read-raised", op=k, exc=res[k]["exc"], where=res[k].get("where"))
    if out.violations:
        return
    if res["qualified_name"]["ok"] != want_qn:
        out.violation("%s: qualified name %r, expected %r" % (label, res["qualified_name"]["ok"], want_qn), symptom="name-differs")
    if expect_run_first and res["trace1"] != ["a.f0"]:
        out.violation("%s: first call trace %r" % (label, res["trace1"]), symptom="first-call-trace")
    if res["trace2"]:
        out.violation("%s: second call ran bodies %r (entry stored under %r not found again)" % (label, res["trace2"], want_qn), symptom="not-found-again")
    if res["memento"]["ok"] is None:
        out.violation("%s: memento() found nothing for %r" % (label, want_qn), symptom="memento-not-found")
    elif res["memento"]["ok"]["qn"] != want_qn:
        out.violation("%s: memento() names %r, stored under %r" % (label, res["memento"]["ok"]["qn"], want_qn), symptom="memento-name-differs")
    if res["list_mementos"]["ok"] != [want_qn]:
        out.violation("%s: list_mementos() = %r, expected [%r]" % (label, res["list_mementos"]["ok"], want_qn), symptom="listing-differs",
                      literal_pct3a="%3A" in want_qn)
    if want_qn not in res["list_functions"]["ok"]:
        out.violation("%s: list_memoized_functions() = %r lacks %r" % (label, res["list_functions"]["ok"], want_qn), symptom="listing-differs",
                      literal_pct3a="%3A" in want_qn)


def _prog_c(case, evolved):
    cl = case["cluster"]
    callee = {"k": "fn", "mod": "a", "name": "g", "memento": True, "version": None, "cluster": cl, "pdef": None, "kwdef": None,
              "base": {"e": "lit", "v": 3}, "body": {"e": "add", "a": {"e": "x"}, "b": {"e": "lit", "v": 1}}}
    caller_body = {"e": "add", "a": {"e": "call", "f": "g"}, "b": {"e": "lit", "v": 10}}
    defs = [callee]
    if case.get("deps"):
        # the callee itself depends on two more memento functions (its dependency closure has several members)
        leaves = [{"k": "fn", "mod": "a", "name": "l%d" % i, "memento": True, "version": None, "cluster": cl, "pdef": None, "kwdef": None,
                   "base": {"e": "lit", "v": i}, "body": {"e": "x"}} for i in (1, 2)]
        callee["body"]["a"] = {"e": "add", "a": {"e": "x"}, "b": {"e": "add", "a": {"e": "call", "f": "l1"}, "b": {"e": "call", "f": "l2"}}}
        defs = leaves + [callee]
    if case["evolution"] == "reversion-hash":
        callee["version"] = "r#1:a"     # the version that will vanish contains '#' and ':'
    ev = case["evolution"] if evolved else None
    if ev == "edit":
        callee["body"]["b"]["v"] = 2
    elif ev == "reversion":
        callee["version"] = "pinned#1"
    elif ev == "reversion-hash":
        callee["version"] = "r#2:a"
    elif ev == "rename":
        callee["name"] = "g2"
        caller_body["a"]["f"] = "g2"
    elif ev == "remove":
        defs = []
        caller_body = {"e": "lit", "v": 10}
    elif ev == "recluster":
        callee["cluster"] = "other" if cl is None else None
    elif ev == "unwrap":
        # the decorator is removed: the name stays bound, to a plain function
        callee["memento"], callee["cluster"] = False, None
    elif ev == "rebind-object":
        # the name stays bound, to something that is not callable at all
        defs = [{"k": "var", "mod": "a", "name": "g", "vtype": "dict", "value": {"k": 5, "z": 1}}]
        caller_body = {"e": "add", "a": {"e": "glob", "n": "g"}, "b": {"e": "lit", "v": 10}}
    caller = {"k": "fn", "mod": "a", "name": "f0", "memento": True, "version": "1", "cluster": cl, "pdef": None, "kwdef": None,
              "base": {"e": "lit", "v": 0}, "body": caller_body}
    return {"pkg": "vpk", "modules": ["a"], "defs": defs + [caller]}


def exec_c(case, scratch):
    out = core.Outcome()
    d = env.fresh_dir(scratch, "c12c-")
    try:
        p0, p1 = _prog_c(case, False), _prog_c(case, True)
        clusters = [c for c in {case["cluster"], "other"} if c is not None]
        base = {"pkg": "vpk", "modules": ["a"], "store": os.path.join(d, "store"), "backend": "fs", "clusters": clusters,
                "probe": ["a", "f0"], "arg": 2, "cluster": case["cluster"], "fnarg": "g"}
        fa_cell = ["a", "@mf(%sversion='1')\ndef fa(fn_arg, x):\n    verif_rt.rec('a.fa')\n    return fn_arg(x) + 100\n" % (
            ("cluster=%r, " % case["cluster"]) if case["cluster"] is not None else "")]
        if case["delivery"] == "restart":
            r0 = proc.forkrun(progrun.run_names, dict(base, init_cells=progs.render_cells(p0) + [fa_cell], steps=[{}]))[0]
            r1 = proc.forkrun(progrun.run_names, dict(base, init_cells=progs.render_cells(p1) + [fa_cell], steps=[{}], fnarg_store=False))[0]
        else:
            cells = [[dd["mod"], progs.render_def(p1, dd)] for dd in p1["defs"]]
            if case["evolution"] in ("remove", "rename"):
                cells.insert(0, ["a", "del g\n"])
            rr = proc.forkrun(progrun.run_names, dict(base, init_cells=progs.render_cells(p0) + [fa_cell], steps=[{}, {"cells": cells}]))
            r0, r1 = rr
        want_qn = build_name(case["cluster"], "vpk.a", "f0", "1")
        _common_probes(out, r0, want_qn, "before the evolution", expect_run_first=False)
        old_callee = r0["versions"].get("a.g", {}).get("ok")
        for lab, r in (("before the evolution", r0), ("after %s of the callee (%s)" % (case["evolution"], case["delivery"]), r1)):
            fl = r.get("fnarg_list")
            if fl is None:
                continue
            if "exc" in fl:
                out.violation("%s: listing a stored entry whose argument is the callee raised %s: %s (at %s)" % (lab, fl["exc"], fl["msg"], fl.get("where")),
                              symptom="read-raised", op="list_mementos(fn argument)", exc=fl["exc"], where=fl.get("where"))
            elif len(fl["ok"]) != 1 or (case["evolution"] != "recluster" and fl["ok"][0][1] != old_callee):
                out.violation("%s: stored entry with function argument lists as %r, it was stored with %r" % (lab, fl["ok"], old_callee), symptom="listing-differs")
            elif r is r1 and case["evolution"] in ("edit", "reversion", "reversion-hash", "rename", "remove", "unwrap", "rebind-object") and fl["ok"][0][2] is not True:
                out.violation("%s: function argument referring to vanished version %r is not reported external" % (lab, old_callee),
                              symptom="vanished-not-external", evolution=case["evolution"])
        if not out.violations:
            _common_probes(out, r1, want_qn, "after %s of the callee (%s)" % (case["evolution"], case["delivery"]), expect_run_first=False)
        if not out.violations:
            ex = r1.get("external_refs") or {}
            if "exc" in ex:
                out.violation("after %s: inspecting the external references handed out by list_memoized_functions() raised %s: %s (at %s)" % (
                    case["evolution"], ex["exc"], ex["msg"], ex.get("where")), symptom="read-raised", op="external-stub", exc=ex["exc"], where=ex.get("where"))
            for e_ in ex.get("ok", []):
                # (the cluster name may itself contain '#': strip the known cluster prefix, module and function have none)
                bare = e_["qn"]
                for cl_ in sorted({c for c in (case["cluster"], "other") if c}, key=len, reverse=True):
                    if bare.startswith(cl_ + "::"):
                        bare = bare[len(cl_) + 2:]
                        break
                want_v = bare.split("#", 1)[1] if "#" in bare else None
                if e_["stub_version"] != want_v or e_["clone_qn"] != e_["qn"]:
                    out.violation("after %s: stored function %r is handed out as an external reference whose stub reports version %r and whose force_local() clone is named %r" % (
                        case["evolution"], e_["qn"], e_["stub_version"], e_["clone_qn"]), symptom="external-stub-name-differs", version_has_hash="#" in (want_v or ""))
                elif e_["via_stub"] != e_["via_clone"]:
                    out.violation("after %s: %r lists %d mementos through its external stub but %d through a force_local() clone of it" % (
                        case["evolution"], e_["qn"], e_["via_stub"], e_["via_clone"]), symptom="external-stub-listing-differs")
        if not out.violations:
            if r1["trace1"]:
                out.violation("after %s (%s): the pinned caller ran again: %r" % (case["evolution"], case["delivery"], r1["trace1"]),
                              symptom="pinned-caller-not-served")
            if r1["call1"] != r0["call1"]:
                out.violation("after %s: caller returned %r, stored value was %r" % (case["evolution"], r1["call1"], r0["call1"]), symptom="served-value-differs")
            inv = r1["memento"]["ok"]["invocations"]
            if case["evolution"] == "recluster":
                pass  # the stored reference resolves to the moved function; only "nothing raises, caller served" is asserted
            elif [i[0] for i in inv] != [old_callee]:
                out.violation("after %s: stored invocations %r, the caller called %r" % (case["evolution"], inv, old_callee), symptom="invocations-differ")
            elif case["evolution"] in ("edit", "reversion", "reversion-hash", "rename", "remove", "unwrap", "rebind-object"):
                if inv[0][1] is not True:
                    out.violation("after %s (%s): reference to vanished callee version %r is not reported external" % (case["evolution"], case["delivery"], old_callee),
                                  symptom="vanished-not-external", evolution=case["evolution"])
            elif case["evolution"] == "none" and inv[0][1] is not False:
                out.violation("callee unchanged but its reference is reported external", symptom="existing-reported-external")
        return out
    finally:
        env.rm(d)


def execute(case, scratch):
    part = case["part"]
    if part == "A":
        out = exec_a(case)
        out.nontrivial = _special(case["cluster"]) or _special(case["version"])
    elif part == "B":
        out = exec_b(case, scratch)
        out.nontrivial = _special(case["cluster"]) or _special(case["version"])
    else:
        out = exec_c(case, scratch)
        out.nontrivial = case["evolution"] in ("edit", "reversion", "reversion-hash", "rename", "remove", "unwrap", "rebind-object")
    out.labels = ["part:" + part] + (["version-has-colon"] if ":" in (case.get("version") or "") else []) + \
        (["version-has-hash"] if "#" in (case.get("version") or "") else []) + \
        (["cluster-has-sep"] if any(c in (case.get("cluster") or "") for c in ":#") else []) + \
        (["default-cluster"] if case.get("cluster") is None else []) + \
        (["evolution:%s:%s" % (case["evolution"], case["delivery"])] if part == "C" else []) + (["callee-with-own-dependencies"] if case.get("deps") else [])
    out.nt_key = case
    return out


def replay(case, ctx):
    return execute(case, ctx.scratch)


def strategies():
    from hypothesis import strategies as st
    ident = st.text(alphabet="abcxyz_", min_size=1, max_size=5)
    dotted = st.lists(ident, min_size=1, max_size=3).map(".".join)
    raw = st.text(alphabet=ALPHA, min_size=1, max_size=10)
    cluster = st.one_of(st.none(), raw.filter(lambda s: "::" not in s and not AMBIG.match(s)),
                        st.sampled_from(["c", "com.example.x", "a:b", "x#y", "c1@prod", "a:"]))
    version = st.one_of(st.none(), raw, st.sampled_from(["1", "a:b", "a::b", "1::2:3", "v#2", "2020-01-01T10:00:00", "#", ":", "v1.link", ".link", "r2.link.tmp", ".versions", "a%2Fb", "v[1]", "a*b?", "[ab]"]))
    a = st.builds(lambda c, m_, f, v: {"part": "A", "cluster": c, "module": m_, "function": f, "version": v}, cluster, dotted, dotted, version)
    b = st.builds(lambda c, v, be: {"part": "B", "cluster": c, "version": v, "backend": be}, cluster, version, st.sampled_from(["fs", "fs", "mem"]))
    c = st.builds(lambda cl, ev, dl: {"part": "C", "cluster": cl, "evolution": ev, "delivery": dl},
                  st.sampled_from([None, None, "c", "a:b", "x#y"]), st.sampled_from(["none", "edit", "reversion", "rename", "remove", "recluster"]),
                  st.sampled_from(["restart", "inproc"]))
    return a, b, c


def run_shard(ctx):
    stats = core.Stats()
    thorough = ctx.tier == "thorough"
    a, b, c = strategies()
    ex = lambda cs: execute(cs, ctx.scratch)  # noqa: E731
    dl = (lambda: (ctx.deadline - time.time()) if ctx.deadline else None)
    core.hyp_search(a, ex, stats, max_examples=100000 if thorough else 4000, seed=core.hash64(ctx.seed, ID, "A", ctx.shard), findings=ctx.findings, deadline_s=dl())
    core.hyp_search(b, ex, stats, max_examples=3000 if thorough else 60, seed=core.hash64(ctx.seed, ID, "B", ctx.shard), findings=ctx.findings, deadline_s=dl())
    # part C is a small finite matrix: enumerate it (5 clusters x 9 evolutions x 2 deliveries)
    cs = [{"part": "C", "cluster": cl, "evolution": ev, "delivery": dv} for cl in (None, "c", "a:b", "x#y", "c1@p") for ev in ("none", "edit", "reversion", "reversion-hash", "rename", "remove", "recluster", "unwrap", "rebind-object") for dv in ("restart", "inproc")]
    cs += [{"part": "C", "cluster": cl, "evolution": ev, "delivery": dv, "deps": 2} for cl in (None, "c") for ev in ("none", "edit", "reversion", "rename", "remove", "recluster", "unwrap") for dv in ("restart", "inproc")]
    core.enum_search(cs, ex, stats, findings=ctx.findings, shard=ctx.shard, nshards=ctx.nshards, deadline_s=dl())
    return stats

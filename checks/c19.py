"""C19 - read-only and null back-ends never write and never execute."""
import os
import time

import twosigma.memento as m
from twosigma.memento.storage import StorageBackend
from twosigma.memento.storage_filesystem import FilesystemStorageBackend
from twosigma.memento.storage_memory import MemoryStorageBackend
from twosigma.memento.storage_null import NullStorageBackend
from twosigma.memento.runner_null import NullRunnerBackend

from vlib import core, env, storeops, storegen, fsaudit, rt, tfuncs, values
from vlib.excs import lib_exception_signature

ID = "C19"
LEVEL = "exploration"
SHARDS = {"quick": 16, "thorough": 16}
RULE = (
    "A store is pre-populated by a generated C05 history, then reopened read-only (flag from the constructor argument, from a config dict, from the argument overriding the dump of a writable backend that says readonly=false, through StorageBackend.create or through a "
    "FunctionCluster config; with and without memory cache; filesystem and memory) and driven by a second generated history of storage operations and by function-level call sequences "
    "(hits, misses, forget, forget_all, put_metadata with and without store_with_data, get_metadata, memento, list). Oracle: zero mutating audit events under the data and metadata roots "
    "and an unchanged tree digest; reads agree with the model of the pre-populated store; memoize returns without error and without effect; forget_* and write_metadata raise; misses execute "
    "the body and return the value but store nothing. For a third of the function-level cases the store is additionally damaged before it is opened read-only (the objects some links point to are removed, as after an incomplete restore): for calls on such entries only the nothing-is-touched oracle applies. Null storage: is_memoized false, no memento, empty function list after any history, every call runs its body. Null runner: no body ever runs, "
    "every call raises. Generators: all read-only histories up to length 2/3 over a 12-op alphabet after a fixed 3-entry population (exhaustive) + Hypothesis. "
    "Non-trivial = read-only history with a memoize of a new key, a forget and a miss call; distinct by op-kind sequence."
    " Round 5: on the null runner, calls are also made through every chain of up to 2 (thorough: 3) caller-side modifiers other than force_local() (monitor_progress / ignore_result, on and off): none may execute the body or return."
)
ASSUMPTIONS = [
    "the memory backend cannot be reopened, so it is switched read-only through its read_only attribute (as the repo's own test does)",
    "mutations are observed with sys.addaudithook (open for writing, mkdir, rename, remove, rmdir, truncate, rmtree) plus a before/after digest of the tree",
]
MANIFEST = {
    "level": "exploration",
    "technique": "model-based property testing: enumerated + Hypothesis-generated operation and call histories on read-only/null back-ends, oracle = audit-hook mutation log, tree digest and dictionary model",
    "text": "Histories are run against pre-populated stores opened read-only in every supported way; any filesystem mutation under the store roots, any model disagreement, any accepted forget/metadata write is a violation. Null storage/runner are driven by the same histories.",
    "note": "Trusts the audit hook to see every mutating filesystem call made from Python and the digest to see the rest.",
}


def _open_ro(kind, how, data_path, meta_path, cache_mb):
    cfg = {"path": data_path, "readonly": True}
    if meta_path != data_path:
        cfg["metadata_path"] = meta_path
    if cache_mb:
        cfg["memory_cache_mb"] = cache_mb
    if how == "arg":
        return FilesystemStorageBackend(path=data_path, metadata_path=None if meta_path == data_path else meta_path,
                                        memory_cache_mb=cache_mb, read_only=True)
    if how == "config":
        return FilesystemStorageBackend(config=cfg)
    if how == "arg-over-config":
        # the configuration is the dump of a writable backend on the same paths (it spells out "readonly": false);
        # the explicit argument overrides it
        writer = FilesystemStorageBackend(path=data_path, metadata_path=None if meta_path == data_path else meta_path, memory_cache_mb=cache_mb)
        return FilesystemStorageBackend(config=dict(writer.to_dict()), read_only=True)
    if how == "create":
        return StorageBackend.create("filesystem", dict(cfg, type="filesystem"))
    if how == "cluster":
        return m.FunctionCluster(config={"name": "c", "storage": dict(cfg, type="filesystem")}).storage
    raise AssertionError(how)


class ROSession(storeops.Session):
    def _expect_refusal(self, what, call):
        for s in self.stores:
            try:
                call(s)
            except ValueError:
                continue
            except Exception as e:
                sig = lib_exception_signature(e)
                if sig is None:
                    raise
                self.fail(s, "exception", "%s raised %r instead of refusing with ValueError" % (what, e), op=what, **sig)
                continue
            self.fail(s, "accepted-on-read-only", "%s was accepted by a read-only backend" % what, op=what)

    def op_memoize(self, fnkey, arg, vdesc, override=None):
        self.touch(fnkey, arg)
        if self.key(fnkey, arg) not in self.model:
            self.labels.add("ro-memoize-new")
        for s in self.stores:
            value = values.build(vdesc)
            self.keep.append(value)
            mem = storeops.make_memento(self.rwa(fnkey, arg), value)
            self.guarded(s, "memoize", s.backend.memoize, override, mem, value)

    def op_forget_call(self, fnkey, arg):
        self.touch(fnkey, arg)
        self.labels.add("ro-forget")
        r = self.rwa(fnkey, arg).fn_reference_with_arg_hash()
        self._expect_refusal("forget_call", lambda s: s.backend.forget_call(r))

    def op_forget_function(self, fnkey):
        self.labels.add("ro-forget")
        self._expect_refusal("forget_function", lambda s: s.backend.forget_function(self.refs[fnkey]))

    def op_forget_everything(self):
        self.labels.add("ro-forget")
        self._expect_refusal("forget_everything", lambda s: s.backend.forget_everything())

    def op_write_meta(self, fnkey, arg, mkey, hexval, with_data=False):
        r = self.rwa(fnkey, arg).fn_reference_with_arg_hash()
        ck = None
        if with_data:
            mem = self.stores[0].backend.get_memento(r)
            ck = mem.content_key if mem is not None else None
            if ck is None:
                return
        self.labels.add("ro-write-meta")
        self._expect_refusal("write_metadata" + ("(store_with_content_key)" if ck else ""),
                             lambda s: s.backend.write_metadata(r, mkey, bytes.fromhex(hexval), store_with_content_key=ck))


def _storage_case(case, scratch):
    out_labels = set()
    d = env.fresh_dir(scratch, "c19-")
    try:
        kind = case["kind"]
        budget_mb = (case.get("budget_kb") or 2) / 1024.0 if kind == "fsc" else None
        pop_case = {"budget_kb": case.get("budget_kb"), "shared_meta": case.get("shared_meta", True),
                    "backends": [kind], "sweep": "none", "ops": case["populate"]}
        pop = storeops.Session(d, pop_case)
        out = pop.run()
        if out.violations:   # population failed: that is C05's business, report as is
            return out, d
        store = pop.stores[0]
        if kind == "mem":
            store.backend.read_only = True
            roots = []
        else:
            store.backend = _open_ro(kind, case["how"], store.data_path, store.meta_path, budget_mb)
            roots = sorted({store.data_path, store.meta_path})
        ro_case = {"budget_kb": case.get("budget_kb"), "shared_meta": case.get("shared_meta", True), "backends": [kind],
                   "sweep": case.get("sweep", "full"), "ops": case["ops"]}
        sess = ROSession(d, ro_case, stores=[store])
        sess.model = dict(pop.model)
        sess.touched = list(pop.touched)
        if not store.backend.read_only:
            sess.fail(store, "flag-lost", "backend opened read-only via %s reports read_only=%r" % (case["how"], store.backend.read_only), how=case["how"])
        before = [fsaudit.tree_digest(r) for r in roots]
        watches = [fsaudit.Watch(r) for r in roots]
        for w in watches:
            w.__enter__()
        try:
            out = sess.run()
        finally:
            for w in watches:
                w.__exit__(None, None, None)
        after = [fsaudit.tree_digest(r) for r in roots]
        for w in watches:
            muts = w.mutations()
            if muts:
                sess.step = -1
                sess.fail(store, "mutation-under-read-only-store", "%d mutating filesystem operations under %s, e.g. %s %s" % (
                    len(muts), os.path.basename(w.root), muts[0]["event"], os.path.relpath(muts[0]["path"], w.root)), how=case["how"])
        if before != after:
            sess.fail(store, "tree-changed", "store tree digest changed during the read-only history", how=case["how"])
        out = sess.out
        out.labels = sorted(set(out.labels) | sess.labels | {"how:" + case.get("how", "-"), "kind:" + kind})
        return out, d
    except Exception:
        env.rm(d)
        raise


def _function_case(case, scratch):
    """Function-level call sequence on a read-only cluster / null storage / null runner."""
    out = core.Outcome()
    d = env.fresh_dir(scratch, "c19f-")
    rt.TABLE.clear()
    try:
        mode = case["mode"]
        for k in range(6):
            rt.TABLE[("val", k)] = (lambda k: (lambda: "v%d" % k))(k)
        data = os.path.join(d, "data")
        roots = []
        memo = set()
        damaged = set()
        if mode == "readonly":
            env.set_env(d, {"c": FilesystemStorageBackend(path=data)})
            for k in case["pre"]:
                tfuncs.val(k)
                memo.add(k)
            if case.get("pre_meta") and case["pre"]:
                tfuncs.val.put_metadata("log", b"x", case["pre"][0])
            # a store that was restored / copied incompletely: for some memoized calls the object a link points to is
            # missing (the link itself is there). Whatever the read-only backend then answers for such a call, it must
            # not repair, clean up or otherwise touch the store.
            for k in case.get("damage", []):
                if k in memo:
                    h = tfuncs.val.fn_reference().with_args(k).arg_hash
                    for dirpath, _dirs, files in os.walk(data):
                        if os.sep + ".versions" in dirpath:
                            for fn_ in files:
                                if h in fn_ and not fn_.endswith(".link"):
                                    os.remove(os.path.join(dirpath, fn_))
                    damaged.add(k)
            cache_mb = 0.01 if case.get("cache") else None
            st = _open_ro("fs", case["how"], data, data, cache_mb)
            env.set_env(d, {"c": st})
            roots = [data]
        elif mode == "nullstorage":
            env.set_env(d, {"c": m.FunctionCluster(name="c", storage=NullStorageBackend())})
        else:
            env.set_env(d, {"c": m.FunctionCluster(name="c", storage=FilesystemStorageBackend(path=data), runner=NullRunnerBackend())})
            roots = [data]
        rt.take()
        before = [fsaudit.tree_digest(r) for r in roots]
        watches = [fsaudit.Watch(r) for r in roots]
        for w in watches:
            w.__enter__()
        labels = set()
        try:
            for i, op in enumerate(case["ops"]):
                name, k = op[0], op[1] if len(op) > 1 else None
                try:
                    if k in damaged or (damaged and name in ("list", "forget_all")):
                        # only the "nothing is touched" oracle applies to calls whose stored objects are missing
                        labels.add("op-on-damaged-entry")
                        try:
                            {"call": lambda: tfuncs.val(k), "memento": lambda: tfuncs.val.memento(k), "list": lambda: tfuncs.val.list_mementos(),
                             "get_meta": lambda: tfuncs.val.get_metadata("log", args=(k,)), "forget": lambda: tfuncs.val.forget(k),
                             "forget_all": lambda: tfuncs.val.forget_all(),
                             "put_meta": lambda: tfuncs.val.put_metadata("log", b"new", k, store_with_data=bool(op[2]))}[name]()
                        except Exception:
                            pass
                        rt.take()
                        continue
                    if name == "call":
                        callee = tfuncs.val
                        if mode == "nullrunner" and len(op) > 2:
                            # any chain of caller-side modifiers other than force_local() still goes to the cluster's runner
                            for mod_ in op[2]:
                                callee = MODIFIERS[mod_](callee)
                            labels.add("modifier-chain:%d" % len(op[2]))
                        try:
                            r = ("ok", callee(k))
                        except Exception as e:
                            r = ("exc", e)
                        runs = [x for x in rt.take() if x[0] == "val"]
                        if mode == "nullrunner":
                            if runs:
                                out.violation("null runner: the body of val(%d) ran" % k, symptom="null-runner-executed")
                            if r[0] != "exc":
                                out.violation("null runner: call returned %r instead of raising" % (r[1],), symptom="null-runner-returned")
                        else:
                            if r != ("ok", "v%d" % k):
                                out.violation("%s: val(%d) gave %r" % (mode, k, r), symptom="wrong-value", mode=mode)
                            expect = 0 if (mode == "readonly" and k in memo) else 1
                            if len(runs) != expect:
                                out.violation("%s: val(%d) ran the body %d times, expected %d (%s)" % (
                                    mode, k, len(runs), expect, "memoized before" if k in memo else "cannot be stored"),
                                    symptom="runs", mode=mode, hit=k in memo)
                            labels.add("hit" if k in memo and mode == "readonly" else "miss")
                    elif name in ("forget", "forget_all"):
                        labels.add("forget")
                        try:
                            tfuncs.val.forget(k) if name == "forget" else tfuncs.val.forget_all()
                            if mode == "readonly":
                                out.violation("read-only: %s was accepted" % name, symptom="accepted-on-read-only", op=name)
                        except ValueError:
                            pass
                    elif name == "put_meta":
                        labels.add("put-meta")
                        try:
                            tfuncs.val.put_metadata("log", b"new", k, store_with_data=bool(op[2]))
                            if mode == "readonly":
                                out.violation("read-only: put_metadata(store_with_data=%r) was accepted" % bool(op[2]),
                                              symptom="accepted-on-read-only", op="put_metadata", with_data=bool(op[2]))
                        except (ValueError, RuntimeError):
                            pass   # refused (read-only) or no memento for these arguments
                    elif name == "memento":
                        mem = tfuncs.val.memento(k)
                        want = mode == "readonly" and k in memo
                        if (mem is not None) != want:
                            out.violation("%s: memento(%d) is %s" % (mode, k, "present" if mem is not None else "absent"),
                                          symptom="memento-wrong", mode=mode)
                    elif name == "list":
                        lst = tfuncs.val.list_mementos() or []
                        fns = m.list_memoized_functions("c")
                        want = len(memo) if mode == "readonly" else 0
                        if len(lst) != want or (mode == "nullstorage" and fns):
                            out.violation("%s: list_mementos() has %d entries, expected %d; functions %r" % (mode, len(lst), want, fns),
                                          symptom="listing-wrong", mode=mode)
                    elif name == "get_meta":
                        tfuncs.val.get_metadata("log", args=(k,))
                except Exception as e:
                    sig = lib_exception_signature(e)
                    if sig is None:
                        raise
                    out.violation("%s: op %r raised %r" % (mode, op, e), symptom="exception", mode=mode, **sig)
                if out.violations:
                    break
        finally:
            for w in watches:
                w.__exit__(None, None, None)
        if mode in ("readonly", "nullrunner"):
            after = [fsaudit.tree_digest(r) for r in roots]
            for w in watches:
                muts = w.mutations()
                if muts and mode == "readonly":
                    out.violation("read-only (%s): %d mutating filesystem operations under the store, e.g. %s %s" % (
                        case["how"], len(muts), muts[0]["event"], os.path.relpath(muts[0]["path"], w.root)),
                        symptom="mutation-under-read-only-store", how=case["how"])
            if mode == "readonly" and before != after:
                out.violation("read-only (%s): store tree digest changed" % case["how"], symptom="tree-changed", how=case["how"])
        out.labels = sorted(labels | {"fmode:" + mode} | ({"how:" + case["how"]} if mode == "readonly" else set()))
        out.nontrivial = {"miss", "forget"} <= labels or mode != "readonly"
        out.nt_key = [mode, case.get("how"), case.get("cache"), sorted(case.get("pre", [])), sorted(case.get("damage", [])), [o[:1] + o[2:] for o in case["ops"]]]
        return out
    finally:
        rt.TABLE.clear()
        env.rm(d)


MODIFIERS = {"monitor_progress": lambda f: f.monitor_progress(), "monitor_progress_off": lambda f: f.monitor_progress(False),
             "ignore_result": lambda f: f.ignore_result(), "ignore_result_off": lambda f: f.ignore_result(False)}


def modifier_chain_cases(max_len):
    import itertools
    for n in range(1, max_len + 1):
        for chain in itertools.product(sorted(MODIFIERS), repeat=n):
            yield {"level": "function", "mode": "nullrunner", "how": "arg", "cache": False, "pre": [], "pre_meta": False,
                   "ops": [["call", 1, list(chain)], ["call", 2]], "damage": []}


def execute(case, scratch):
    if case.get("level") == "function":
        return _function_case(case, scratch)
    out, d = _storage_case(case, scratch)
    env.rm(d)
    out.nontrivial = {"ro-memoize-new", "ro-forget"} <= set(out.labels)
    out.nt_key = [case["kind"], case.get("how"), storegen.op_shape({"ops": case["ops"], "budget_kb": case.get("budget_kb"), "sweep": case.get("sweep")})]
    return out


def replay(case, ctx):
    return execute(case, ctx.scratch)


POPULATE = [["memoize", "f#1", 0, {"t": "str", "v": "s"}], ["memoize", "f#10", 0, {"t": "list", "v": []}],
            ["memoize", "f2#1", 1, {"t": "none"}], ["write_meta", "f#1", 0, "log", "6162"]]


def small_scope(max_len):
    import itertools
    alphabet = [["memoize", "f#1", 0, {"t": "str", "v": "other"}], ["memoize", "fa#10", 2, {"t": "int", "v": "5"}],
                ["memoize", "f2#1", 1, {"t": "str", "v": "x"}, "ov/x"],
                ["forget_call", "f#1", 0], ["forget_call", "fa#10", 2], ["forget_function", "f#10"], ["forget_everything"],
                ["write_meta", "f#1", 0, "log", "00"], ["write_meta", "f#1", 0, "k2", "01", True],
                ["read", "f#1", 0], ["list_functions"], ["reopen_noop"]]
    alphabet = [a for a in alphabet if a[0] != "reopen_noop"]
    for n in range(1, max_len + 1):
        for seq in itertools.product(alphabet, repeat=n):
            for kind, how in (("fs", "arg"), ("fs", "config"), ("fsc", "create"), ("fsc", "cluster"), ("fs", "arg-over-config"), ("mem", "-")):
                yield {"kind": kind, "how": how, "budget_kb": 2, "shared_meta": kind != "fsc", "sweep": "full",
                       "populate": POPULATE, "ops": [list(o) for o in seq]}


def strategy(thorough):
    from hypothesis import strategies as st

    @st.composite
    def storage_case(draw):
        kind = draw(st.sampled_from(["fs", "fsc", "mem"]))
        pop = draw(storegen.history_strategy(15, backends=(kind,), overrides=True))
        ro = draw(storegen.history_strategy(40 if thorough else 15, backends=(kind,), overrides=True))
        ops = [o for o in ro["ops"] if o[0] != "reopen"]
        # sometimes turn a metadata write into one that is stored with the data
        ops = [(o + [True]) if (o[0] == "write_meta" and draw(st.booleans())) else o for o in ops]
        return {"kind": kind, "how": draw(st.sampled_from(["arg", "config", "create", "cluster", "arg-over-config"])) if kind != "mem" else "-",
                "budget_kb": pop["budget_kb"], "shared_meta": pop["shared_meta"], "sweep": ro["sweep"],
                "populate": [o for o in pop["ops"] if o[0] != "reopen"] + POPULATE[:2], "ops": ops or [["list_functions"]]}

    fop = st.one_of(
        st.tuples(st.sampled_from(["call", "call", "call", "forget", "memento", "get_meta"]), st.integers(0, 5)).map(list),
        st.tuples(st.just("call"), st.integers(0, 5), st.lists(st.sampled_from(sorted(MODIFIERS)), min_size=1, max_size=3)).map(list),
        st.tuples(st.just("put_meta"), st.integers(0, 5), st.booleans()).map(list),
        st.sampled_from([["forget_all"], ["list"]]))
    function_case = st.builds(
        lambda mode, how, cache, pre, pm, ops, dmg: {"level": "function", "mode": mode, "how": how, "cache": cache, "pre": sorted(pre), "pre_meta": pm, "ops": ops,
                                                    "damage": sorted(set(pre) & set(dmg))},
        st.sampled_from(["readonly", "readonly", "readonly", "nullstorage", "nullrunner"]),
        st.sampled_from(["arg", "config", "create", "cluster", "arg-over-config"]), st.booleans(),
        st.lists(st.integers(0, 5), max_size=4, unique=True), st.booleans(), st.lists(fop, min_size=1, max_size=12),
        st.integers(0, 2).flatmap(lambda i: st.just([]) if i else st.lists(st.integers(0, 5), min_size=1, max_size=3, unique=True)))
    return st.integers(0, 2).flatmap(lambda i: storage_case() if i == 0 else function_case)


def run_shard(ctx):
    stats = core.Stats()
    thorough = ctx.tier == "thorough"
    ex = lambda c: execute(c, ctx.scratch)  # noqa: E731
    dl = (lambda frac: max((ctx.deadline - time.time()) * frac, 5) if ctx.deadline else None)
    complete = core.enum_search(small_scope(3 if thorough else 2), ex, stats, findings=ctx.findings, shard=ctx.shard,
                                nshards=ctx.nshards, deadline_s=dl(0.5))
    stats.extra["exhaustive_sequences"] = stats.evaluations
    stats.extra["small_scope_complete"] = bool(complete)
    # null runner under every chain of up to 3 (quick: 2) caller-side modifiers
    core.enum_search(modifier_chain_cases(3 if thorough else 2), ex, stats, findings=ctx.findings, shard=ctx.shard, nshards=ctx.nshards, deadline_s=dl(0.6))
    core.hyp_search(strategy(thorough), ex, stats, max_examples=10000 if thorough else 200,
                    seed=core.hash64(ctx.seed, ID, ctx.shard), findings=ctx.findings, deadline_s=dl(1.0))
    return stats

"""C03 - function versions are deterministic, so unchanged programs reuse stored results."""
import json
import os
import subprocess
import sys
import time

from vlib import core, env, progs, progrun

ID = "C03"
LEVEL = "exploration"
SHARDS = {"quick": 16, "thorough": 16}
RULE = (
    "Hypothesis generates programs as in C01 (every constant kind: int and str set literals, tuples, nested code, defaults; cycles; aliases/wrappers; 1-2 modules) and, per program, "
    "k configurations (4 quick / 8 thorough) = PYTHONHASHSEED value x permutation of the definition order (aliases/wrappers stay after their targets, a function after the function its parameter default names; optionally grouped so that all plain helpers / all variables / all memento functions come last) x permutation of the order in which "
    "versions are first queried; every configuration is a real interpreter start. For two thirds of the cases a module variable is additionally re-bound or mutated in place: configuration 0 imports the text that already contains the new value, every other configuration imports the original text and asks every function for its version once (warm in-process version cache), applies the change in-process and only then performs its recorded queries in its own order. Oracle (metamorphic): the map function -> version is identical in all configurations; and process A "
    "calls all automatically-versioned functions against an empty store, then process B (different hash seed, different definition and query order) repeats the calls on that store: "
    "B executes no function body and returns the same values. Non-trivial = the program has an order-sensitive ingredient (set literal with >= 2 members, >= 2 dependencies, >= 2 tracked "
    "variables or a cycle) and the configurations differ in hash seed and order; distinct by program."
    " Round 5: module-level sets with members of several types (missing-value markers: strings next to None / numbers), renamed definitions (builtin names, very long names)."
    " Round 6: references from nested scopes, parameters whose default is a module-level list / dict (updated in place by the module text before or after the definition); a re-binding is not combined with a module-level clone (known finding held-clone, counted as excluded) nor with a variable that is a parameter default."
)
ASSUMPTIONS = [
    "one interpreter version/platform (CPython 3.12); cross-version stability of code hashes is out of scope",
    "configurations are sampled (hash seeds 0,1,2,3,...,random), not enumerated",
]
MANIFEST = {
    "level": "exploration",
    "technique": "property-based testing with Hypothesis: metamorphic relation over real interpreter starts (hash seed x definition order x query order) on generated programs",
    "text": "For each generated program the version map is computed in several genuinely different processes and must be identical; a second process on the same store must execute no body.",
    "note": "Trusts the subprocess harness; bounded number of configurations per program.",
}

PY = "/venv/bin/python" if os.path.exists("/venv/bin/python") else sys.executable
ROOT = os.path.dirname(os.path.dirname(os.path.abspath(__file__)))


_excluded = [0]


def _rebound(case):
    """(edited program, [[module, statement]]) for the optional variable re-binding of the case, else (None, [])"""
    rb = case.get("rebind")
    if not rb:
        return None, []
    p2, info = progs.apply_edit(case["program"], rb, "r")
    if not info["applied"]:
        return None, []
    if not info.get("stmt") and any(dd.get("gdef") == info.get("target") for dd in progs.fns(p2)):
        # the variable is also the default value of a parameter: a default is evaluated when the function is defined, so
        # "new value in the text" and "re-bound after the import" are different programs (the default keeps the old object)
        return None, []
    if any(dd["k"] == "alias" and dd.get("form") == "clone" for dd in p2["defs"]):
        # a module-level modifier clone created at import time pins the version its function had then; after an in-process
        # change it makes every function that refers to it differ from a fresh import - known finding held-clone (recorded
        # under C01, where it serves stale results). Excluded here by construction, and counted.
        _excluded[0] += 1
        return None, []
    if any(dd["k"] == "mut" and dd["target"] == info.get("target") for dd in p2["defs"]):
        # the module text itself appends to this variable at import time: "new value in the text, then append" and
        # "append, then change in-process" are different lists, i.e. different programs - not a case
        return None, []
    # only the variable changes: explicit version strings stay as they are in both deliveries (versions are compared,
    # and every configuration computes with the new value)
    for dd in progs.fns(p2):
        dd["version"] = progs.find(case["program"], dd["name"]).get("version")
    if info.get("stmt"):
        return p2, [[info["target_mod"], info["stmt"]]]
    dd = progs.find(p2, info["target"])
    return p2, [[dd["mod"], progs.render_def(p2, dd)]]


def _run_config(d, prog, cfg, store, call, idx, pre_cells=()):
    order = cfg["order"]
    n = len(prog["defs"])
    # permutation applied to non-alias defs, aliases/wrappers kept last
    base = [i for i in range(n) if prog["defs"][i]["k"] not in ("alias", "wrapper")]   # ("query" statements move freely, but stay after their target)
    tail = [i for i in range(n) if prog["defs"][i]["k"] in ("alias", "wrapper")]
    # "mode" groups the definitions: e.g. every plain helper (or every variable) only after all memento functions, so that
    # versions computed at decoration time saw undefined symbols which are defined later without any further registration
    grp = {"plain-last": lambda dd: 1 if (dd["k"] == "fn" and not dd["memento"]) else 0,
           "vars-last": lambda dd: 1 if dd["k"] == "var" else 0,
           "memento-last": lambda dd: 1 if (dd["k"] == "fn" and dd["memento"]) else 0}.get(cfg.get("mode"), lambda dd: 0)
    perm = sorted(base, key=lambda i: (grp(prog["defs"][i]), order[i % len(order)] if order else 0, i)) + tail
    pkgroot = os.path.join(d, "cfg%d" % idx)
    progrun.write_files(pkgroot, progs.render_files(prog, order=perm))
    mem = [[f["mod"], f["name"]] for f in progs.fns(prog) if f["memento"]]
    q = sorted(mem, key=lambda mn: (cfg["query"][mem.index(mn) % len(cfg["query"])] if cfg["query"] else 0, mn))
    roots = [[f["mod"], f["name"]] for f in progs.fns(prog) if f["memento"] and f.get("version") is None]
    spec = {"pkgroot": pkgroot, "pkg": prog["pkg"], "modules": prog["modules"], "store": store, "query": q, "roots": roots,
            "args": [1, 2], "call": call, "pre_cells": list(pre_cells)}
    sf = os.path.join(d, "spec%d.json" % idx)
    with open(sf, "w") as f:
        json.dump(spec, f)
    e = dict(os.environ)
    e["PYTHONHASHSEED"] = str(cfg["seed"])
    e["PYTHONPATH"] = (e["VERIF_REPO"] + os.pathsep if e.get("VERIF_REPO") else "") + ROOT + os.pathsep + e.get("PYTHONPATH", "")
    e.pop("VERIF_RT_IDENTITY", None)
    r = subprocess.run([PY, "-m", "vlib.progrun", sf], env=e, cwd=ROOT, capture_output=True, text=True, timeout=300)
    if "@@RESULT@@" not in r.stdout:
        raise core.HarnessError("configuration process failed: %s\n%s" % (r.returncode, (r.stderr or "")[-2000:]))
    return json.loads(r.stdout.split("@@RESULT@@", 1)[1])


def execute(case, scratch):
    out = core.Outcome()
    d = env.fresh_dir(scratch, "c03-")
    try:
        prog = case["program"]
        cfgs = case["configs"]
        store = os.path.join(d, "store")
        os.makedirs(store)
        results = []
        _excluded[0] = 0
        p2, pre = _rebound(case)
        out.excluded = _excluded[0]
        for i, cfg in enumerate(cfgs):
            # configuration 0 and 1 share the store and call the roots (A then B); the rest only compute versions.
            # With a re-binding, configuration 0 imports the program text in which the variable already has its new
            # value; every other configuration imports the original text, asks every function for its version once, then
            # re-binds / mutates the variable in-process, then performs its recorded queries in its own order.
            if p2 is not None and i == 0:
                results.append(_run_config(d, p2, cfg, store, call=True, idx=i))
            else:
                results.append(_run_config(d, prog, cfg, store if i < 2 else os.path.join(d, "s%d" % i), call=i < 2, idx=i,
                                           pre_cells=pre if p2 is not None else ()))
        v0 = results[0]["versions"]
        for i, r in enumerate(results[1:], 1):
            diff = sorted(k for k in v0 if r["versions"].get(k) != v0[k])
            if diff:
                feats = progs.features(prog)
                out.violation("version of %s differs between configuration 0 %r and configuration %d %r: %s vs %s" % (
                    diff[0], _cfg(cfgs[0]), i, _cfg(cfgs[i]), v0[diff[0]], r["versions"].get(diff[0])),
                    symptom="version-differs", seed_differs=cfgs[0]["seed"] != cfgs[i]["seed"],
                    has_str_set="str-set" in feats)
                break
        errs = [k for r in results for k, v in r["versions"].items() if str(v).startswith("!")]
        if errs:
            out.violation("version() raised for %s: %s" % (errs[0], [r["versions"][errs[0]] for r in results if errs[0] in r["versions"]][0]),
                          symptom="version-raised")
        if len(results) > 1 and not out.violations:
            a, b = results[0], results[1]
            if b["trace"]:
                out.violation("second process (hash seed %s, other definition/query order) re-executed %r on the store filled by the first (seed %s)" % (
                    cfgs[1]["seed"], sorted(set(b["trace"])), cfgs[0]["seed"]), symptom="second-process-recomputed")
            if a["results"] != b["results"]:
                out.violation("second process returned different values: %r vs %r" % (b["results"], a["results"]), symptom="values-differ")
        feats = progs.features(prog)
        sensitive = ("inset" in feats) or ("dict-from-set" in feats) or ("mixed-type-set" in feats) or ("variable-as-parameter-default" in feats) or ("fn-default" in feats) or ("version-query-at-import" in feats) or ("in-place-update-at-import" in feats) or ("same-name-in-two-modules" in feats) or ("two-module-level-lambdas" in feats) or ("function-and-module-level-clone" in feats) or sum(1 for dd in prog["defs"] if dd["k"] == "var") >= 2 or \
            any(len(progs.edges(prog, f["name"])[0]) >= 2 for f in progs.fns(prog))
        differ = len({c["seed"] for c in cfgs}) > 1
        out.nontrivial = sensitive and differ
        out.labels = ["feat:" + f for f in feats] + ["configs:%d" % len(cfgs)] + (["rebind-after-import"] if p2 is not None else [])
        out.render = {"files": {k: v for k, v in progs.render_files(prog).items() if not k.endswith("__init__.py")},
                      "configs": [_cfg(c) for c in cfgs], "versions": v0, "rebind_after_import": pre}
        out.nt_key = prog
        return out
    finally:
        env.rm(d)


def _cfg(c):
    return {"PYTHONHASHSEED": c["seed"], "order": c["order"][:6], "query": c["query"][:6], "mode": c.get("mode", "mixed")}


def replay(case, ctx):
    return execute(case, ctx.scratch)


def strategy(thorough):
    from hypothesis import strategies as st
    k = 8 if thorough else 4
    cfg = st.builds(lambda s, o, q, md: {"seed": s, "order": o, "query": q, "mode": md},
                    st.one_of(st.sampled_from([0, 1, 2, 3]), st.integers(4, 2**31)),
                    st.lists(st.integers(0, 20), min_size=1, max_size=10), st.lists(st.integers(0, 20), min_size=1, max_size=8),
                    st.sampled_from(["mixed", "mixed", "mixed", "plain-last", "vars-last", "memento-last"]))
    cfgs = st.lists(cfg, min_size=k, max_size=k).map(
        lambda cs: [dict(c, seed=(c["seed"] if i != 1 or c["seed"] != cs[0]["seed"] else c["seed"] + 1)) for i, c in enumerate(cs)])
    rebind = st.integers(0, 2).flatmap(lambda i: st.none() if i == 0 else st.builds(
        lambda e, k: dict(e, kind=k), progs.edit_strategy(), st.sampled_from(["var", "varmut", "varmut", "varcopy"])))
    return st.builds(lambda p, c, rb: {"program": p, "configs": c, "rebind": rb},
                     progs.program_strategy(max_fns=7 if thorough else 5, allow_hidden=False, allow_fdef=True, allow_dictset=True, allow_query=True, allow_mut=True, allow_tuplist=True, allow_twins=True, allow_keyclash=True, allow_rename=True, allow_mixset=True, allow_nested_refs=True, allow_gdef=True), cfgs, rebind)


def directed_cases():
    """
    A small enumerated family of program shapes whose versions have depended on the hash seed or on the definition order
    before (in the library or under a seeded change); each is run under six hash seeds and several definition orders.
    Generated search produces these shapes too, but only with some probability per run.
    """
    lit = lambda v: {"e": "lit", "v": v}  # noqa: E731
    call = lambda f: {"e": "call", "f": f}  # noqa: E731
    add = lambda a, b: {"e": "add", "a": a, "b": b}  # noqa: E731
    glob = lambda n: {"e": "glob", "n": n}  # noqa: E731

    def fn(name, memento, body, **kw):
        return dict({"k": "fn", "mod": "a", "name": name, "memento": memento, "version": None, "cluster": None, "pdef": None, "kwdef": None,
                     "fdef": None, "base": lit(1), "body": body}, **kw)

    def var(name, vtype, value):
        return {"k": "var", "mod": "a", "name": name, "vtype": vtype, "value": value}
    cfgs = [{"seed": sd, "order": od, "query": [], "mode": md} for sd, od, md in
            ((0, [], "mixed"), (1, [3, 1, 2, 0], "mixed"), (2, [2, 0, 3, 1], "plain-last"), (3, [1, 3, 0, 2], "vars-last"),
             (4, [0, 2, 1, 3], "memento-last"), (5, [3, 2, 1, 0], "mixed"))]
    shapes = []
    # plain helpers forming a diamond / triangle under a memento root, for helper names sorting before and after the root's
    for n1, n2 in (("a", "b"), ("a", "zz"), ("zz", "a"), ("y", "zz")):
        defs = [fn("f2", False, add({"e": "x"}, lit(3))), fn("f1", False, add(call("f2"), lit(2))),
                fn("f0", True, add(call("f1"), call("f2")))]
        shapes.append(("helper-diamond", progs.rename_defs({"pkg": "vpk", "modules": ["a"], "defs": defs}, {"f1": n1, "f2": n2})))
    # a set of strings / of mixed types, and a dictionary built from a set, read by the root
    shapes.append(("mixed-type-set", {"pkg": "vpk", "modules": ["a"], "defs": [
        var("G0", "mixset", ["", "NA", "n/a", "null", None, 3]), var("G1", "dictset", ["a", "bb", "ccc", "dddd"]),
        fn("f0", True, add(glob("G0"), add(glob("G1"), {"e": "inset", "x": {"e": "x"}, "s": ["e", "a", "zz", "cc"]})))]}))
    # two module-level lambdas, and a function next to a module-level clone of it
    shapes.append(("two-lambdas", {"pkg": "vpk", "modules": ["a"], "defs": [
        fn("lam0", False, add({"e": "x"}, lit(4)), lam=True), fn("lam1", False, add({"e": "x"}, lit(7)), lam=True),
        fn("f0", True, add(call("lam0"), call("lam1")))]}))
    shapes.append(("function-and-clone", {"pkg": "vpk", "modules": ["a"], "defs": [
        fn("f1", True, add({"e": "x"}, lit(2))), {"k": "alias", "form": "clone", "mod": "a", "name": "f1_c", "target": "f1"},
        fn("f0", True, add(call("f1"), call("f1_c")))]}))
    # a function-valued and a variable-valued parameter default, the variable updated in place by the module text
    shapes.append(("defaults", {"pkg": "vpk", "modules": ["a"], "defs": [
        var("G0", "list", [1, 2]), {"k": "mut", "mod": "a", "name": "_mut0", "target": "G0", "delta": 11},
        fn("f2", False, add({"e": "x"}, glob("G0"))), fn("f1", True, add(call("f2"), {"e": "pg"}), gdef="G0"),
        fn("f0", True, add({"e": "pfn"}, add({"e": "pg"}, call("f1"))), fdef="f1", gdef="G0")]}))
    for label, prog in shapes:
        yield {"program": prog, "configs": [dict(c) for c in cfgs], "rebind": None, "src": "directed:" + label}


def run_shard(ctx):
    stats = core.Stats()
    thorough = ctx.tier == "thorough"
    core.enum_search(list(directed_cases()), lambda c: execute(c, ctx.scratch), stats, findings=ctx.findings, shard=ctx.shard, nshards=ctx.nshards,
                     deadline_s=max((ctx.deadline - time.time()) * 0.4, 5) if ctx.deadline else None)
    core.hyp_search(strategy(thorough), lambda c: execute(c, ctx.scratch), stats, max_examples=60 if thorough else 5,
                    seed=core.hash64(ctx.seed, ID, ctx.shard), findings=ctx.findings, shrink=thorough,
                    deadline_s=(ctx.deadline - time.time()) if ctx.deadline else None)
    return stats

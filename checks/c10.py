"""C10 - provenance is exact and independent of what was already memoized."""
import itertools
import os
import time

import twosigma.memento as m

from vlib import core, env, trees
from vlib.excs import lib_exception_signature

ID = "C10"
LEVEL = "exploration"
SHARDS = {"quick": 16, "thorough": 16}
RULE = (
    "Hypothesis generates call trees over 2-7 memento functions (bodies are sequences of: direct call, repeated call, call_batch with duplicates, call expected to raise "
    "(caught or not), file_resource and a custom resource function; any action may be conditional on the parity of the argument, so that one function version reaches different functions for different arguments, and a node may call itself recursively down to 0; a body may contain a pause point at which ANOTHER thread makes an unrelated top-level memento call, which must not appear in this body's record) and, per tree, optionally one injected read error on a memoized sub-call (so that it is found in the store by the runner itself rather than by the batch pre-check), all 2^n subsets of the n distinct sub-calls memoized beforehand for n <= 6 (sampled above). "
    "Oracle: a side-channel trace of what each body actually did. For the root and every inner call that has a memento: invocations == the calls made directly, in order, "
    "as (qualified name, arg hash); resources == handles obtained, in order; function_dependencies == versions of all functions invoked transitively beneath it plus itself; "
    "and the record is identical for every subset. Non-trivial = tree with a repeated, batched or failing sub-call and a subset that is neither empty nor full; "
    "distinct by (tree, subset)."
    " Editions part (round 5): generated programs (vlib/progs.py) with explicitly versioned functions are run on a persistent store, edited beneath those functions (their results survive, by definition) and run again, each edition in a new process; afterwards every memento in the store is read back through new backend objects and its dependency set must equal itself plus the union of the dependency sets stored for the calls it recorded - in particular when two versions of one function meet in one set. Directed enumerated family (pinned caller / edited leaf / root reaching the leaf directly, through a helper, or not at all) plus generated programs and edits."
    " Round 6: a file resource whose name contains a percent escape."
)
ASSUMPTIONS = [
    "functions carry explicit versions, so dynamic dispatch through a table is allowed by the library (no dependency validation)",
    "local runner; no context arguments (C16 covers them); the only concurrency is one unrelated call from a second thread at a harness-chosen pause point of a body (interleavings are C09's subject)",
    "a sub-call is 'memoized beforehand' by calling it at top level and forgetting every other call again",
]
MANIFEST = {
    "level": "exploration",
    "technique": "property-based testing with Hypothesis: generated call trees (argument-dependent, recursive, with a second thread making an unrelated call at a pause point) x exhaustive subsets of pre-memoized sub-calls, oracle = side-channel execution trace (metamorphic invariance across subsets); plus generated programs edited across process restarts with a closure invariant over every stored memento (dependency set = itself + union over its recorded calls)",
    "text": "For each generated tree the provenance record of every call is compared with the recorded trace of what the bodies really did, under every subset of pre-memoized sub-calls (exhaustive for n <= 6).",
    "note": "Trusts the harness trace (vlib/trees.py) as ground truth for what bodies did.",
}


def _qn(fn):
    return trees.FUNCS[fn].fn_reference().qualified_name


def _hash(fn, arg):
    return trees.FUNCS[fn].fn_reference().with_args(arg).arg_hash


def _expectations(trace):
    """(node, x) -> {"inv": [(qn, hash)], "res": [...], "direct": [(fn, arg)]} from the reference trace."""
    exp = {}
    for rec in trace:
        key = (rec["node"], rec["x"])
        if key in exp:
            continue
        exp[key] = {
            "inv": [(_qn(c["fn"]), _hash(c["fn"], c["arg"])) for c in rec["calls"]],
            "res": [tuple(r) for r in rec["resources"]],
            "direct": [(c["fn"], c["arg"]) for c in rec["calls"]],
        }
    # transitive dependency sets
    memo = {}

    def deps(key, stack=()):
        if key in memo:
            return memo[key]
        s = {_qn(key[0])}
        for child in exp.get(key, {"direct": []})["direct"]:
            if child in exp and child not in stack:
                s |= deps(child, stack + (key,))
            else:
                s.add(_qn(child[0]))
        memo[key] = s
        return s

    for key in exp:
        exp[key]["deps"] = sorted(deps(key))
    return exp


def _record_of(mem):
    im = mem.invocation_metadata
    return {
        "inv": [(r.fn_reference.qualified_name, r.arg_hash) for r in im.invocations],
        "res": [(h.resource_type, h.url, h.version) for h in im.resources],
        "deps": sorted(f.qualified_name for f in mem.function_dependencies),
    }


def _same_fn_diff(exp):
    """does some body call one function with two arguments whose recorded sub-calls differ?"""
    for e in exp.values():
        by_fn = {}
        for fn, arg in e["direct"]:
            by_fn.setdefault(fn, set()).add(arg)
        for fn, args in by_fn.items():
            shapes = {tuple(c[0] for c in exp.get((fn, a), {"direct": []})["direct"]) for a in args}
            if len(shapes) > 1:
                return True
    return False


def _call(fn, x):
    try:
        trees.FUNCS[fn](x)
    except Exception:
        pass


_tx = [1000]


def _call_root(prog, x0, labels):
    """
    Calls t0(x0). If the tree has a pause point, the call runs in its own thread and, the first time a body reaches a
    pause point, this (other) thread makes an unrelated top-level memento call before the body is allowed to continue.
    """
    import threading
    if not any(a["a"] == "pause" for acts in prog["nodes"].values() for a in acts):
        return _call("t0", x0)
    reached, resume, fired = threading.Event(), threading.Event(), [False]

    def hook():
        if not fired[0]:
            fired[0] = True
            reached.set()
            resume.wait(60)
    trees.STATE["pause_hook"] = hook
    th = threading.Thread(target=_call, args=("t0", x0))
    th.start()
    try:
        while th.is_alive() and not reached.wait(0.005):
            pass
        if reached.is_set():
            _tx[0] += 1
            trees.tx(_tx[0])
            labels.append("unrelated-call-from-other-thread-during-body")
    finally:
        resume.set()
        th.join()
        trees.STATE["pause_hook"] = None


def _fresh(case, d, name):
    kind = {"fs": "fs", "fsc": "fs", "mem": "memory"}[case["backend"]]
    st = env.make_backend(kind, os.path.join(d, name), cache_mb=0.05 if case["backend"] == "fsc" else None)
    env.set_env(d, {"c": st})
    return st


def _compare(out, exp, label, keys):
    for key in keys:
        try:
            mem = trees.FUNCS[key[0]].memento(key[1])
        except Exception as e:
            sig = lib_exception_signature(e)
            if sig is None:
                raise
            out.violation("memento(%s(%s)) raised %r [%s]" % (key[0], key[1], e, label), symptom="exception", **sig)
            continue
        if mem is None:
            if key == ("t0", keys[0][1]) and key[0] == "t0":
                out.violation("no memento for the root call [%s]" % label, symptom="no-root-memento")
            continue
        got = _record_of(mem)
        want = exp[key]
        for field in ("inv", "res", "deps"):
            if got[field] != (want[field] if field != "inv" else want["inv"]):
                out.violation("%s(%s) %s: recorded %s = %r, the body's trace says %r" % (
                    key[0], key[1], label, field, _short(got[field]), _short(want[field])),
                    symptom="record-differs", field=field, when="subset" if label != "reference" else "reference")
                break


def _short(v):
    s = repr([(a[0].split(":")[-1], a[1][:6]) if isinstance(a, tuple) and len(a) == 2 else a for a in v])
    return s if len(s) < 400 else s[:400] + "..."


def execute(case, scratch):
    if case.get("part") == "editions":
        return execute_editions(case, scratch)
    out = core.Outcome()
    d = env.fresh_dir(scratch, "c10-")
    try:
        files = os.path.join(d, "files")
        os.makedirs(files)
        for fn in ("r1", "r2", "q3%20report"):
            with open(os.path.join(files, fn), "w") as f:
                f.write(fn)
            os.utime(os.path.join(files, fn), (1600000000, 1600000000))
        prog = case["program"]
        x0 = case["x"]
        # reference: everything computed
        _fresh(case, d, "ref")
        trees.begin(prog, files)
        conc = []
        _call_root(prog, x0, conc)
        trace = trees.take_trace()
        exp = _expectations(trace)
        root = ("t0", x0)
        keys = [root] + [k for k in exp if k != root]
        _compare(out, exp, "reference", keys)
        subcalls = [k for k in keys if k != root]
        n = len(subcalls)
        special = any(len(set(e["direct"])) < len(e["direct"]) for e in exp.values()) or \
            any(a["a"] in ("batch", "raise") for acts in prog["nodes"].values() for a in acts)
        nt = False
        nsub = 0
        if not out.violations:
            if n <= case.get("max_exhaustive", 6):
                subsets = [list(c) for r in range(0, n + 1) for c in itertools.combinations(range(n), r)]
            else:
                subsets = [s for s in case.get("subsets", []) if all(i < n for i in s)] + [list(range(n))]
            for si, sub in enumerate(subsets):
                if not sub:
                    continue
                st = _fresh(case, d, "s%d" % si)
                trees.begin(prog, files)
                chosen = [subcalls[i] for i in sub]
                for (fn, x) in chosen:
                    _call(fn, x)
                for (fn, x) in subcalls:
                    if (fn, x) not in chosen:
                        try:
                            trees.FUNCS[fn].forget(x)
                        except Exception:
                            pass
                trees.take_trace()
                if case.get("read_fault") and chosen:
                    # one reported I/O error while reading the first memoized sub-call's result: the
                    # pre-check gives up on it and the runner finds it in the store again under the lock
                    tq, th = _qn(chosen[0][0]), _hash(*chosen[0])
                    orig, left = st.read_result, [1]

                    def faulty(mem, orig=orig, left=left, tq=tq, th=th):
                        r = mem.invocation_metadata.fn_reference_with_args
                        if left[0] and r.fn_reference.qualified_name == tq and r.arg_hash == th:
                            left[0] -= 1
                            raise IOError("injected read fault (verif)")
                        return orig(mem)

                    st.read_result = faulty
                _call_root(prog, x0, conc)
                ran = [(r["node"], r["x"]) for r in trees.take_trace()]
                for c in chosen:
                    if c in ran:
                        out.violation("%s(%s) was memoized beforehand but its body ran again" % c, symptom="ran-although-memoized")
                _compare(out, exp, "with %d of %d sub-calls memoized beforehand %r" % (len(sub), n, chosen), keys)
                nsub += 1
                if 0 < len(sub) < n:
                    nt = True
                if out.violations:
                    break
        out.nontrivial = special and nt
        out.labels = sorted(set(conc)) + ["n:%d" % min(n, 8), "backend:" + case["backend"]] + (["special"] if special else []) + \
            (["exhaustive-subsets"] if n <= 6 else ["sampled-subsets"]) + (["read-fault"] if case.get("read_fault") else []) + \
            (["arg-dependent"] if any(a.get("when") in ("even", "odd") for acts in prog["nodes"].values() for a in acts) else []) + \
            (["self-recursive"] if any(a.get("when") == "pos" for acts in prog["nodes"].values() for a in acts) else []) + \
            (["same-fn-different-subtrees"] if _same_fn_diff(exp) else [])
        out.excluded = 0
        out.nt_key = [prog, x0]
        out.render = {"program": prog, "x": x0, "distinct_subcalls": n, "subsets_run": nsub}
        return out
    except Exception as e:
        sig = lib_exception_signature(e)
        if sig is None:
            raise
        out.violation("unexpected %r" % (e,), symptom="exception", **sig)
        return out
    finally:
        env.rm(d)


# ------------------------------------------------------------------------------------------
# Editions part: provenance across code changes (several versions of one function in one dependency set)
# ------------------------------------------------------------------------------------------

def _editions(case):
    """[program of edition 0, 1, ...]: the edits are applied one after the other; explicit version strings stay as they are
    (a function with an explicit version keeps its memoized results although something beneath it changed - documented)"""
    from vlib import progs
    eds = [case["program"]]
    kinds = []
    for i, ed in enumerate(case["edits"]):
        p2, info = progs.apply_edit(eds[-1], ed, "e%d" % i)
        if not info["applied"]:
            continue
        for dd in progs.fns(p2):
            dd["version"] = progs.find(case["program"], dd["name"]).get("version")
        eds.append(p2)
        kinds.append(info["kind"])
    return eds, kinds


def execute_editions(case, scratch):
    from vlib import proc, progs, progrun
    out = core.Outcome()
    d = env.fresh_dir(scratch, "c10e-")
    try:
        eds, kinds = _editions(case)
        prog0 = eds[0]
        roots = [[f["mod"], f["name"]] for f in progs.fns(prog0) if f["memento"] and f["name"] == "f0"]
        store = os.path.join(d, "store")
        two_versions = False
        checked = skipped = 0
        for i, p in enumerate(eds):
            pkgroot = os.path.join(d, "ed%d" % i)
            progrun.write_files(pkgroot, progs.render_files(p))
            r = proc.forkrun(progrun.run_provenance, {"pkgroot": pkgroot, "pkg": p["pkg"], "modules": p["modules"], "store": store,
                                                      "roots": roots, "args": case["args"]}, timeout=300)
            bad = [v for vs in r["results"].values() for v in vs if "exc" in v]
            if bad:
                out.violation("edition %d: a root call raised %s: %s" % (i, bad[0]["exc"], bad[0]["msg"]), symptom="exception", exc=bad[0]["exc"], where="editions")
                break
            by_key = {(e["qn"], e["h"]): e for e in r["dump"]}
            for e in r["dump"]:
                kids = [by_key.get((q, h)) for q, h in e["inv"]]
                if any(k is None for k in kids):
                    skipped += 1
                    continue
                want = {e["qn"]}
                for k in kids:
                    want |= set(k["deps"])
                checked += 1
                names = [q.split("#")[0] for q in want]
                if len(names) != len(set(names)):
                    two_versions = True
                if set(e["deps"]) != want:
                    out.violation("after edition %d (edits %r): the stored memento of %s lists dependencies %r; itself plus the dependency sets stored for the calls it recorded give %r" % (
                        i, kinds[:i], e["qn"], sorted(e["deps"]), sorted(want)), symptom="dependencies-not-the-union-of-the-recorded-calls",
                        missing=bool(want - set(e["deps"])), extra=bool(set(e["deps"]) - want), two_versions=len(names) != len(set(names)))
                    break
            if out.violations:
                break
        out.nontrivial = two_versions
        out.labels = ["part:editions", "editions:%d" % len(eds)] + (["two-versions-of-one-function-in-a-dependency-set"] if two_versions else []) + \
            ["src:" + case.get("src", "random")]
        out.nt_key = [case["program"], case["edits"]]
        out.render = {"program": {k: v for k, v in progs.render_files(prog0).items() if not k.endswith("__init__.py")}, "edits": kinds,
                      "mementos_checked": checked, "skipped_because_a_recorded_call_has_no_memento": skipped}
        return out
    finally:
        env.rm(d)


def _fn(name, memento=True, version=None, base=0, body=None):
    return {"k": "fn", "mod": "a", "name": name, "memento": memento, "version": version, "cluster": None, "pdef": None, "kwdef": None, "fdef": None,
            "base": {"e": "lit", "v": base}, "body": body or {"e": "x"}}


def directed_editions():
    """small enumerated family: a function with an explicit version (its results survive the edit) calls a leaf that is edited;
    the root reaches the leaf too - directly, through a plain helper, or only through the pinned function"""
    call = lambda f: {"e": "call", "f": f}  # noqa: E731
    add = lambda a, b: {"e": "add", "a": a, "b": b}  # noqa: E731
    for root_version in (None, "r1"):
        for shape in ("direct", "helper", "only-pinned"):
            for leaf_kind in ("lit", "var"):
                defs = []
                if leaf_kind == "var":
                    defs.append({"k": "var", "mod": "a", "name": "G0", "vtype": "int", "value": 3})
                    leaf = _fn("f2", base=1, body=add({"e": "x"}, {"e": "glob", "n": "G0"}))
                else:
                    leaf = _fn("f2", base=1, body=add({"e": "x"}, {"e": "lit", "v": 5}))
                pinned = _fn("f1", version="p1", base=2, body=add(call("f2"), {"e": "lit", "v": 1}))
                defs += [leaf, pinned]
                if shape == "direct":
                    rb = add(call("f1"), call("f2"))
                elif shape == "helper":
                    defs.append(_fn("f3", memento=False, base=0, body=call("f2")))
                    rb = add(call("f1"), call("f3"))
                else:
                    rb = add(call("f1"), {"e": "lit", "v": 7})
                defs.append(_fn("f0", version=root_version, base=0, body=rb))
                # (site 0: the first literal of the leaf, which is defined first / the only variable)
                edit = {"kind": "var" if leaf_kind == "var" else "lit", "site": 0, "delta": 1, "alt": False, "idx": 0}
                yield {"part": "editions", "src": "directed", "program": {"pkg": "vpk", "modules": ["a"], "defs": defs},
                       "edits": [edit], "args": [2, 3]}


def replay(case, ctx):
    return execute(case, ctx.scratch)


def strategy(thorough):
    from hypothesis import strategies as st
    return st.builds(
        lambda p, x, b, subs, rf: {"program": p, "x": x, "backend": b, "subsets": subs, "max_exhaustive": 6, "read_fault": rf},
        trees.program_strategy(with_ctx=False, max_nodes=7 if thorough else 5, argdep=True), st.integers(0, 3),
        st.sampled_from(["mem", "mem", "fs", "fsc"]),
        st.lists(st.lists(st.integers(0, 11), max_size=8, unique=True), max_size=12 if thorough else 5),
        st.booleans())


def run_shard(ctx):
    stats = core.Stats()
    thorough = ctx.tier == "thorough"
    n = 3000 if thorough else 90
    ex = lambda c: execute(c, ctx.scratch)  # noqa: E731
    dl = (lambda frac: max((ctx.deadline - time.time()) * frac, 5) if ctx.deadline else None)
    # editions part: a directed enumerated family, then generated programs with generated edits
    core.enum_search(list(directed_editions()), ex, stats, findings=ctx.findings, shard=ctx.shard, nshards=ctx.nshards, deadline_s=dl(0.3))
    from hypothesis import strategies as st
    from vlib import progs
    ed_kinds = st.builds(lambda k, s_, dl_: {"kind": k, "site": s_, "delta": dl_, "alt": False, "idx": 0},
                         st.sampled_from(["lit", "lit", "var", "nested", "pdef", "kwdef", "varcopy"]), st.integers(0, 30), st.integers(1, 5))
    ed_cases = st.builds(lambda p, eds, a: {"part": "editions", "src": "random", "program": p, "edits": eds, "args": a},
                         progs.program_strategy(max_fns=6 if thorough else 5, allow_hidden=False, allow_explicit=True, allow_cluster=True, allow_init=True),
                         st.lists(ed_kinds, min_size=1, max_size=3), st.sampled_from([[2], [2, 3], [1, 3]]))
    core.hyp_search(ed_cases, ex, stats, max_examples=400 if thorough else 8, seed=core.hash64(ctx.seed, ID, "editions", ctx.shard),
                    findings=ctx.findings, deadline_s=dl(0.45))
    core.hyp_search(strategy(thorough), ex, stats, max_examples=n,
                    seed=core.hash64(ctx.seed, ID, ctx.shard), findings=ctx.findings,
                    deadline_s=(ctx.deadline - time.time()) if ctx.deadline else None)
    return stats

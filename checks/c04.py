"""C04 - argument identity: the memo key is canonical in the bound argument values."""
import time

from vlib import core, env, argspec, afuncs, rt, values
from vlib.excs import lib_exception_signature

ID = "C04"
LEVEL = "exploration"
SHARDS = {"quick": 16, "thorough": 16}
RULE = (
    "Hypothesis draws a harness function (7 signatures: defaults, keyword-only, **kwargs), a binding of parameters to values from the "
    "supported argument domain (None/bool/int incl. >2^64/float incl. NaN,inf,-0.0/str/date/datetime naive+aware/lists/str-keyed dicts/"
    "memento function references with chained partials), optional context args, 2-4 presentations of that binding (positional/keyword split, "
    "keyword order, dict insertion order, chained partial prefixes - optionally deriving and discarding a sibling partial from every intermediate partial -, with_args on the reference) and a mutation of one bound value "
    "(type flip bool/int/float/str, date<->datetime at midnight, naive<->aware, list reorder, changed/added context arg). Oracles: all presentations "
    "give one arg_hash and one stored result (body runs once); arg_hash == an independent implementation of the documented algorithm "
    "(typed canonical JSON, sorted keys, SHA-256); what the body received re-hashes to the same key; the mutated binding is a miss and has a "
    "different hash iff its canonical form differs; for a third of the cases the binding is also called from inside another memento function (caller with/without context args, directly or through an intermediate function that attaches nothing; nested call inheriting, "
    "attaching an empty dict, or attaching its own dict) and the key recorded in the caller's invocations must equal the documented key under the effective context, and a direct call under that context is then served. Non-trivial = at least two genuinely different presentations, or a mutation differing only "
    "in type/zone/context; distinct by (function, value type shapes, presentation shapes, mutation kind)."
)
ASSUMPTIONS = [
    "defaults are not bound into the key ('normal arguments are converted to kwargs'): f() and f(default) are different bindings",
    "equality of bindings is equality of canonical representation (0.0 != -0.0, equal instants at different offsets differ)",
    "positional arguments (partial + call) always form a prefix of the parameters, so memento's fill-the-unbound rule and Python's agree",
    "datetime offsets are whole minutes; dict keys starting with _memento are reserved",
    "the independent spec implementation (vlib/argspec.py) was validated against the digests pinned in tests/test_reference.py",
]
MANIFEST = {
    "level": "exploration",
    "technique": "property-based testing with Hypothesis: metamorphic relations over call presentations + differential against an independent implementation of the written hash specification",
    "text": "Generated bindings are presented in several equivalent ways and mutated in type-only ways; key invariance, key injectivity, agreement with an independently written spec hash and hit/miss behaviour are asserted on every case.",
    "note": "Trusts vlib/argspec.py (validated against the repo's pinned digests) and the memory/filesystem backend used to observe hits.",
}

_env_ready = {}


def _setup(scratch, backend):
    d = env.fresh_dir(scratch, "c04-")
    st = env.make_backend("memory" if backend == "mem" else "fs", d)
    env.set_env(d, {"c": st})
    return d


def _permute_dicts(v, flip):
    if isinstance(v, dict):
        items = [(k, _permute_dicts(x, flip)) for k, x in v.items()]
        if flip:
            items.reverse()
        return dict(items)
    if isinstance(v, list):
        return [_permute_dicts(x, flip) for x in v]
    return v


_nest_k = [0]


def _present(case, p, binding_vals, ctx_vals, attach=True):
    """Build (callable, pos args, kwargs) for presentation p."""
    fn = afuncs.FUNCS[case["fn"]]
    pos_params = afuncs.SIGS[case["fn"]][0]
    flip = bool(p.get("flip"))
    vals = {k: _permute_dicts(v, flip) for k, v in binding_vals.items()}
    used = set()
    f = fn
    cursor = 0
    for npos, kwn in p.get("partial", []):
        pargs = [vals[q] for q in pos_params[cursor:cursor + npos]]
        used.update(pos_params[cursor:cursor + npos])
        cursor += npos
        pkw = {k: vals[k] for k in kwn}
        used.update(kwn)
        f = f.partial(*pargs, **pkw)
        if p.get("sibling"):
            # derive another partial from this one and throw it away: the one we keep must be unaffected
            spare = [q for q in (afuncs.SIGS[case["fn"]][0] + afuncs.SIGS[case["fn"]][1]) if q not in binding_vals and q not in used]
            if afuncs.SIGS[case["fn"]][3]:
                spare.append("sib")
            if spare:
                f.partial(**{spare[0]: "sibling-value"})
    npos = p.get("npos", 0)
    pos = [vals[q] for q in pos_params[cursor:cursor + npos]]
    used.update(pos_params[cursor:cursor + npos])
    rest = [k for k in p["kworder"] if k not in used]
    kw = {k: vals[k] for k in rest}
    if ctx_vals is not None and attach:
        f = f.with_context_args(_permute_dicts(ctx_vals, flip))
    return f, pos, kw


def execute(case, scratch):
    out = core.Outcome()
    d = _setup(scratch, case.get("backend", "mem"))
    try:
        rt.take()
        binding_vals = {k: argspec.build_arg(v) for k, v in case["binding"].items()}
        ctx_vals = None if case.get("ctx") is None else {k: argspec.build_arg(v) for k, v in case["ctx"].items()}
        want_canon = argspec.canonical_of_binding(binding_vals, ctx_vals)
        want_hash = argspec.spec_hash(binding_vals, ctx_vals)
        hashes = []
        first_result = None
        shapes = set()
        for i, p in enumerate(case["presentations"]):
            try:
                f, pos, kw = _present(case, p, binding_vals, ctx_vals)
                rwa = f.fn_reference().with_args(*pos, **kw, _memento_context_args=ctx_vals)
                h = rwa.arg_hash
                hashes.append(h)
                res = f(*pos, **kw)
            except Exception as e:
                sig = lib_exception_signature(e)
                if sig is None:
                    raise
                out.violation("presentation %d of %s raised %r" % (i, case["fn"], e), symptom="exception", **sig)
                return out
            runs = rt.take()
            shapes.add((p.get("npos", 0), len(p.get("partial", [])), bool(p.get("flip"))))
            if h != want_hash:
                out.violation("arg_hash %s of presentation %d differs from the documented algorithm %s for %s" % (
                    h[:12], i, want_hash[:12], want_canon[:300]), symptom="hash-disagrees-with-spec")
            if i == 0:
                first_result = res
                if len(runs) != 1:
                    out.violation("first call ran the body %d times" % len(runs), symptom="first-call-runs")
                else:
                    got = runs[0][1]
                    missing = [k for k in binding_vals if k not in got]
                    if missing:
                        out.violation("body did not receive bound parameters %r" % missing, symptom="body-received-other-values")
                    # parameters that were not bound simply take their defaults in the body
                    got = {k: v for k, v in got.items() if k in binding_vals}
                    got_canon = argspec.canonical_of_binding(got, None)
                    if got_canon != argspec.canonical_of_binding(binding_vals, None):
                        out.violation("body received %s, key was computed from %s" % (got_canon[:300], want_canon[:300]),
                                      symptom="body-received-other-values")
                    leaked = [k for k in runs[0][1] if k.startswith("_memento")]
                    if leaked:
                        out.violation("body received reserved parameters %r" % leaked, symptom="context-leaked")
            else:
                if runs:
                    out.violation("presentation %d (%r) of the same binding ran the body again (hash %s vs %s)" % (
                        i, p, h[:12], hashes[0][:12]), symptom="equivalent-presentation-missed")
                elif res != first_result:
                    out.violation("presentation %d returned %r, first call returned %r" % (i, res, first_result),
                                  symptom="wrong-result")
        if len(set(hashes)) > 1:
            out.violation("equivalent presentations produced %d different arg hashes" % len(set(hashes)),
                          symptom="hash-not-invariant")
        # mutation: injectivity
        mut = case.get("mutation")
        mut_kind = None
        if mut and not out.violations:
            mut_kind = mut["kind"]
            b2 = dict(binding_vals)
            c2 = ctx_vals
            if "param" in mut:
                b2[mut["param"]] = argspec.build_arg(mut["to"])
            else:
                c2 = {k: argspec.build_arg(v) for k, v in mut["ctx"].items()}
            canon2 = argspec.canonical_of_binding(b2, c2)
            f = afuncs.FUNCS[case["fn"]]
            if c2 is not None:
                f = f.with_context_args(c2)
            try:
                h2 = f.fn_reference().with_args(**b2, _memento_context_args=c2).arg_hash
                f(**b2)
            except Exception as e:
                sig = lib_exception_signature(e)
                if sig is None:
                    raise
                out.violation("mutated call raised %r" % (e,), symptom="exception", **sig)
                return out
            runs = rt.take()
            same = canon2 == want_canon
            if same != (h2 == hashes[0]):
                out.violation("bindings %s and %s: canonical forms %s but hashes %s" % (
                    want_canon[:200], canon2[:200], "equal" if same else "differ", "equal" if h2 == hashes[0] else "differ"),
                    symptom="injectivity", mutation=mut_kind)
            if same and runs:
                out.violation("equal binding missed", symptom="equivalent-presentation-missed")
            if not same and not runs:
                out.violation("call with a different binding (%s vs %s, mutation %s) was served from the store" % (
                    canon2[:200], want_canon[:200], mut_kind), symptom="different-binding-shared-result", mutation=mut_kind)
        # the same binding called from inside another memento function: the key includes the context arguments in force
        # there (the caller's, unless the nested call attaches its own - an empty dict included - which replace them)
        nst = case.get("nested")
        if nst and not out.violations:
            _nested(out, case, nst, binding_vals)
        out.nontrivial = len(shapes) >= 2 or mut_kind in ("type-flip", "date-datetime", "naive-aware", "ctx") or bool(nst)
        out.labels = out.labels + ["fn:" + case["fn"], "npres:%d" % len(case["presentations"])] + \
            (["mut:" + mut_kind] if mut_kind else []) + (["ctx"] if ctx_vals else []) + \
            (["partial"] if any(p.get("partial") for p in case["presentations"]) else []) + \
            (["fnref"] if '"t": "fn"' in core.canon(case["binding"]).replace('":"', '": "') else [])
        out.nt_key = [case["fn"], _shape(case["binding"]), sorted(shapes), mut_kind, bool(ctx_vals), sorted(l for l in out.labels if l.startswith("nested:"))]
        return out
    finally:
        env.rm(d)


def _nested(out, case, nst, binding_vals):
    outer_ctx = None if nst.get("outer_ctx") is None else {k: argspec.build_arg(v) for k, v in nst["outer_ctx"].items()}
    ov = nst.get("override")  # None = inherit, {} = replace by nothing, {..} = replace
    ov_vals = None if ov is None else {k: argspec.build_arg(v) for k, v in ov.items()}
    eff = ov_vals if ov_vals is not None else outer_ctx
    want = argspec.spec_hash(binding_vals, eff)
    p = case["presentations"][nst.get("pres", 0) % len(case["presentations"])]
    _nest_k[0] += 1
    k = _nest_k[0]

    def thunk():
        f, pos, kw = _present(case, p, binding_vals, None, attach=False)
        if ov_vals is not None:
            f = f.with_context_args(ov_vals)
        return f(*pos, **kw)
    depth = 2 if nst.get("depth") == 2 else 1
    if depth == 2:
        # caller (with the context) -> intermediate function (attaches nothing) -> the call under test
        rt.TABLE[("nest2", k)] = thunk
        rt.TABLE[("nest", k)] = lambda: afuncs.nest2(k)
    else:
        rt.TABLE[("nest", k)] = thunk
    inner = afuncs.FUNCS[case["fn"]]
    try:
        outer = afuncs.nest if outer_ctx is None else afuncs.nest.with_context_args(outer_ctx)
        outer(k)
        rt.take()
        mem = outer.memento(k)
        if depth == 2:
            mid = afuncs.nest2 if not outer_ctx else afuncs.nest2.with_context_args(outer_ctx)
            mem = mid.memento(k)
            if mem is None:
                out.violation("the intermediate function's call is not stored under the context it inherited (%r)" % (outer_ctx,), symptom="nested-key-differs", attached="intermediate")
                return
        invs = mem.invocation_metadata.invocations
        if len(invs) != 1:
            out.violation("caller recorded %d invocations for one nested call" % len(invs), symptom="nested-invocations")
            return
        got = invs[0].arg_hash
        if got != want:
            out.violation("nested call (caller context %r, attached %r) was keyed %s; documented key of the binding under the effective context %r is %s" % (
                outer_ctx, ov_vals, got[:12], eff, want[:12]), symptom="nested-key-differs", attached="none" if ov_vals is None else ("empty" if not ov_vals else "dict"))
            return
        # the result of the nested call is the one a direct call under the effective context is served
        direct = inner.with_context_args(eff) if eff else inner
        direct(**binding_vals)
        if rt.take():
            out.violation("direct call under the effective context %r ran the body again after the nested call" % (eff,),
                          symptom="nested-result-not-shared")
        out.labels.append("nested:" + ("inherit" if ov_vals is None else ("empty-override" if not ov_vals else "override")) + ("/ctx" if outer_ctx else "/noctx") + ("/depth2" if depth == 2 else ""))
    except Exception as e:
        sig = lib_exception_signature(e)
        if sig is None:
            raise
        out.violation("nested call raised %r" % (e,), symptom="exception", **sig)
    finally:
        rt.TABLE.pop(("nest", k), None)
        rt.TABLE.pop(("nest2", k), None)


def _shape(b):
    def sh(d):
        if d["t"] in ("list",):
            return ["l"] + [sh(x) for x in d["v"]]
        if d["t"] == "dict":
            return ["d"] + sorted(sh(x)[0] if isinstance(sh(x), list) else sh(x) for x in d["v"].values())
        if d["t"] == "fn":
            return "fn%d" % len(d.get("steps", []))
        if d["t"] == "dt":
            return "dt" + ("z" if d.get("tz") is not None else "")
        return d["t"]
    return {k: sh(v) for k, v in b.items()}


def replay(case, ctx):
    return execute(case, ctx.scratch)


def strategy():
    from hypothesis import strategies as st
    A = argspec.strategies()

    @st.composite
    def case(draw):
        fn = draw(st.sampled_from(sorted(afuncs.SIGS)))
        pos_params, kwonly, required, varkw = afuncs.SIGS[fn]
        names = list(required)
        for p in pos_params + kwonly:
            if p not in names and draw(st.booleans()):
                names.append(p)
        if varkw:
            for extra in draw(st.lists(st.sampled_from(["zz", "y2", "opt"]), max_size=2, unique=True)):
                names.append(extra)
        binding = {n: draw(A.arg) for n in names}
        ctx = draw(A.ctx)
        # longest prefix of positional params that is bound
        prefix = 0
        for p in pos_params:
            if p in binding:
                prefix += 1
            else:
                break
        pres = []
        for i in range(draw(st.integers(2, 4))):
            total_pos = draw(st.integers(0, prefix))
            partial = []
            used_pos = 0
            nonprefix = [n for n in names if n not in pos_params[:total_pos]]
            pk_pool = list(nonprefix)
            for _ in range(draw(st.integers(0, 2))):
                np_ = draw(st.integers(0, total_pos - used_pos))
                kwn = draw(st.lists(st.sampled_from(pk_pool), max_size=2, unique=True)) if pk_pool else []
                pk_pool = [x for x in pk_pool if x not in kwn]
                if np_ or kwn:
                    partial.append([np_, kwn])
                    used_pos += np_
            kworder = draw(st.permutations(names))
            pres.append({"npos": total_pos - used_pos, "partial": partial, "kworder": list(kworder),
                         "flip": draw(st.booleans()), "sibling": draw(st.booleans())})
        mutation = None
        if names and draw(st.sampled_from([True, True, True, True, True, False])):
            kind = draw(st.sampled_from(["type-flip", "date-datetime", "naive-aware", "value", "ctx", "reorder"]))
            pname = draw(st.sampled_from(names))
            if kind == "type-flip":
                numeral = draw(st.sampled_from([0, 1]))
                forms = [{"t": "bool", "v": bool(numeral)}, {"t": "int", "v": str(numeral)},
                         {"t": "float", "v": str(float(numeral))}, {"t": "str", "v": str(numeral)},
                         {"t": "str", "v": "true" if numeral else "false"}]
                a, b = draw(st.permutations(forms))[:2]
                binding[pname] = a
                mutation = {"kind": kind, "param": pname, "to": b}
            elif kind == "date-datetime":
                d = draw(A.S.dates)
                binding[pname] = {"t": "date", "v": d.isoformat()}
                mutation = {"kind": kind, "param": pname, "to": {"t": "dt", "v": d.isoformat() + "T00:00:00", "tz": None}}
            elif kind == "naive-aware":
                dtd = draw(A.dt())
                a = dict(dtd, tz=None)
                b = dict(dtd, tz=draw(st.sampled_from([0, 60, -300])))
                if draw(st.booleans()):
                    a, b = b, a
                binding[pname] = a
                mutation = {"kind": kind, "param": pname, "to": b}
            elif kind == "value":
                mutation = {"kind": kind, "param": pname, "to": draw(A.arg)}
            elif kind == "reorder":
                items = draw(st.lists(A.scalar, min_size=2, max_size=3))
                binding[pname] = {"t": "list", "v": items}
                mutation = {"kind": kind, "param": pname, "to": {"t": "list", "v": list(reversed(items))}}
            else:
                c2 = dict(ctx or {})
                c2[draw(st.sampled_from(["tenant", "zz"]))] = draw(A.simple)
                mutation = {"kind": "ctx", "ctx": c2}
        nested = None
        if draw(st.integers(0, 2)) == 0:
            nested = {"outer_ctx": draw(A.ctx), "override": draw(st.sampled_from(["inherit", "inherit", "empty", "dict"])), "pres": draw(st.integers(0, 3)), "depth": draw(st.sampled_from([1, 2]))}
            nested["override"] = {"inherit": None, "empty": {}, "dict": None}[nested["override"]] if nested["override"] != "dict" else (draw(A.ctx) or {})
        return {"fn": fn, "binding": binding, "ctx": ctx, "presentations": pres, "mutation": mutation, "nested": nested,
                "backend": draw(st.sampled_from(["mem", "mem", "fs"]))}

    return case()


def run_shard(ctx):
    argspec.self_test()
    stats = core.Stats()
    n = 40000 if ctx.tier == "thorough" else 700
    core.hyp_search(strategy(), lambda c: execute(c, ctx.scratch), stats, max_examples=n,
                    seed=core.hash64(ctx.seed, ID, ctx.shard), findings=ctx.findings,
                    deadline_s=(ctx.deadline - time.time()) if ctx.deadline else None)
    return stats

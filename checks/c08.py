"""C08 - a crash or I/O fault at any point of a write never poisons the filesystem store."""
import os
import time

from vlib import core, env, proc, values, faults

ID = "C08"
LEVEL = "fault_enumeration"
SHARDS = {"quick": 16, "thorough": 16}
RULE = (
    "Scenarios = result value (scalar, list, None, numpy array, InMemoryPartition/OnDiskPartition, exception, values larger than the whole memory cache) x topology {one function; two functions producing byte-identical results; "
    "caller -> callee; key override; key override shared with a call memoized beforehand} x {no cache, cache}: a fixed canonical list plus Hypothesis-generated ones. For each scenario a dry run lists every mutating filesystem operation "
    "(mkdir, open for writing, rename/replace, remove) issued under the store while memoizing, and EVERY such operation is combined with every applicable variant: process death before the operation, "
    "right after it, after an open with the file left empty, after half of the bytes were written; ENOSPC reported by the operation, by the write after half of the bytes, or when the file is closed. "
    "Death = os._exit in a forked child (no finally blocks, no buffer flush). Oracle: afterwards, in a fresh process on the damaged store, three calls of every function of the scenario raise nothing "
    "and return the correct value, and the second and third call run no body (memoization recovered); for reported errors the faulted call itself returns the correct value, and so do the same calls made twice more by the surviving process. "
    "Non-trivial = the fault lands on a data or pointer file (not only on a mkdir); distinct by (scenario, operation index, variant)."
    " Round 6: partition keys that cannot be file names are not combined with a key override; no partition inside the chain topology's list."
)
ASSUMPTIONS = [
    "faults are injected at Python-level filesystem operations (audit hook + wrapped open/os functions); no power-loss model (unsynced data, reordered renames), no concurrent writer processes",
    "one fault per run in the quick tier; the thorough tier adds a second fault during the first recovery write",
]
MANIFEST = {
    "level": "fault_enumeration",
    "technique": "exhaustive fault-point enumeration per generated scenario (every mutating filesystem operation x crash/error variants), oracle = correct values and recovered memoization in a fresh process",
    "text": "For every scenario the complete list of mutating filesystem operations of the memoizing run is enumerated and each is crashed or failed in every applicable way; the surviving process (after a reported error) and fresh processes on the damaged store must keep giving correct answers and must memoize again.",
    "note": "Trusts the audit hook to see every mutating operation issued from Python; fault model as stated.",
}

CANONICAL = [
    {"value": {"t": "str", "v": "payload-abc"}, "topology": "single", "cache": False},
    {"value": {"t": "str", "v": "payload-abc"}, "topology": "twin", "cache": False},
    {"value": {"t": "list", "v": [{"t": "int", "v": "1"}, {"t": "str", "v": "x"}]}, "topology": "chain", "cache": False},
    {"value": {"t": "int", "v": "7"}, "topology": "override", "cache": False},
    {"value": {"t": "none"}, "topology": "single", "cache": False},
    {"value": {"t": "impart", "v": {"a": {"t": "int", "v": "1"}, "b": {"t": "str", "v": "bb"}}}, "topology": "single", "cache": False},
    {"value": {"exc": "ValueError", "msg": "boom"}, "topology": "twin", "cache": False},
    {"value": {"t": "nd", "dtype": "int64", "v": [1, 2, 3]}, "topology": "twin", "cache": True},
    {"value": {"t": "str", "v": "payload-abc"}, "topology": "chain", "cache": True},
    {"value": {"t": "odpart", "v": {"k": {"t": "int", "v": "5"}}}, "topology": "single", "cache": True},
    # a result larger than the whole memory cache (0.5 MB), with and without a sibling producing the same bytes
    {"value": {"t": "str", "n": 600000, "c": "B"}, "topology": "single", "cache": True},
    {"value": {"t": "nd", "dtype": "int8", "n": 700000}, "topology": "twin", "cache": True},
    # the faulted call publishes under an override key another call has already published under
    {"value": {"t": "str", "v": "report"}, "topology": "override-shared", "cache": False},
    {"value": {"t": "list", "v": [{"t": "int", "v": "3"}]}, "topology": "override-shared", "cache": True},
]
ACTIONS = {"single": [["cv", 1]], "twin": [["cv", 1], ["cv2", 1]], "chain": [["cc", 1]], "override": [["ck", 1]],
           "override-shared": [["ck2", 1]]}
# calls made (fault-free) before the faulted ones: another call has already published under the same override key
PRE = {"override-shared": [["ck", 1]]}
VERIFY = {"single": ["cv"], "twin": ["cv", "cv2"], "chain": ["cc", "cv"], "override": ["ck"], "override-shared": ["ck", "ck2"]}


def _child(spec):
    """Runs in a forked child: performs `calls` under the fault plan (or none) and reports."""
    import twosigma.memento as m
    from twosigma.memento.storage_filesystem import FilesystemStorageBackend
    from vlib import rt, cfuncs, tfuncs
    from vlib import env as venv
    st = FilesystemStorageBackend(path=spec["store"], memory_cache_mb=0.5 if spec["cache"] else None)
    venv.set_env(spec["base"], {"c": st})
    vd = spec["value"]
    for fname in ("cv", "cv2", "ck", "ck2"):
        if "exc" in vd:
            rt.TABLE[(fname, 1)] = lambda: tfuncs.raise_kind(vd["exc"], vd["msg"])
        else:
            rt.TABLE[(fname, 1)] = lambda: values.build(vd)
    for fname, k in spec.get("pre", []):
        try:
            cfuncs.FUNCS[fname](k)
        except BaseException:  # noqa
            pass
    rt.take()
    res = []

    def do_calls():
        for fname, k in spec["calls"]:
            try:
                r = cfuncs.FUNCS[fname](k)
                res.append({"fn": fname, "ok": _view(r)})
            except BaseException as e:  # noqa
                res.append({"fn": fname, "exc": type(e).__name__, "msg": str(e)[:200]})
            res[-1]["runs"] = [x[0] for x in rt.take()]

    if spec.get("plan") is not None or spec.get("observe"):
        with faults.Controller(spec["store"], spec.get("plan")) as ctl:
            do_calls()
        n_faulted = len(res)
        if spec.get("plan") is not None and spec.get("again"):
            # the process survived a reported error: the same calls again, in the same process, without faults
            for _ in range(spec["again"]):
                do_calls()
        return {"results": res[:n_faulted], "again": res[n_faulted:], "events": ctl.events, "fired": ctl.fired}
    do_calls()
    return {"results": res}


def _view(r):
    from twosigma.memento.partition import Partition
    if isinstance(r, Partition):
        return {"partition": {k: _view(r.get(k)) for k in r.list_keys()}}
    if isinstance(r, list):
        return [_view(x) for x in r]
    if hasattr(r, "tolist"):
        if getattr(r, "size", 0) > 1000:
            import hashlib
            return {"nd-sha256": hashlib.sha256(r.tobytes()).hexdigest(), "dtype": str(r.dtype), "size": int(r.size)}
        return {"nd": r.tolist()}
    if isinstance(r, (str, bytes)) and len(r) > 1000:
        import hashlib
        return {"sha256": hashlib.sha256(r if isinstance(r, bytes) else r.encode("utf-8")).hexdigest(), "len": len(r)}
    return r


def _same(got, want):
    """values travel from the forked child as JSON (dates as text, NaN as NaN): compare canonical JSON text"""
    return core.canon(got) == core.canon(want)


def _expected(scn, fname):
    vd = scn["value"]
    if "exc" in vd:
        return {"exc": vd["exc"]}
    v = _view(values.build(vd))
    return {"ok": [v, 1] if fname == "cc" else v}


def variants_for(ev):
    vs = ["crash-before", "err-before", "crash-after"]
    if ev["event"] == "open":
        vs += ["crash-empty", "crash-partial", "err-write", "err-close"]
    return vs


def fault_points(scn, scratch):
    """Dry run -> list of fault points for the scenario."""
    d = env.fresh_dir(scratch, "c08dry-")
    try:
        spec = {"store": os.path.join(d, "store"), "base": d, "cache": scn["cache"], "value": scn["value"],
                "calls": ACTIONS[scn["topology"]], "pre": PRE.get(scn["topology"], []), "observe": True}
        dry = proc.forkrun(_child, spec)
        pts = []
        for ev in dry["events"]:
            for v in variants_for(ev):
                pts.append({"event": ev["i"], "variant": v, "k": None, "on": ev["event"], "rel_kind": _rel_kind(ev["rel"])})
        return pts, dry
    finally:
        env.rm(d)


def _rel_kind(rel):
    top = rel.split(os.sep)[0]
    kind = {"c": "data", "m": "metadata", "ov": "override"}.get(top, top)
    if rel.endswith(".link") or ".link." in rel:
        kind += "-pointer"
    return kind


def run_point(scn, pt, scratch, second=None):
    out = core.Outcome()
    d = env.fresh_dir(scratch, "c08-")
    try:
        store = os.path.join(d, "store")
        spec = {"store": store, "base": d, "cache": scn["cache"], "value": scn["value"], "calls": ACTIONS[scn["topology"]],
                "pre": PRE.get(scn["topology"], []),
                "plan": {"event": pt["event"], "variant": pt["variant"], "k": pt["k"]},
                "again": 0 if pt["variant"].startswith("crash") else 2}
        r = proc.forkrun(_child, spec, crash_code=faults.CRASH_CODE)
        label = "%s at operation %d (%s on %s)" % (pt["variant"], pt["event"], pt["on"], pt["rel_kind"])
        crashed = bool(r.get("crashed"))
        if not crashed:
            if pt["variant"].startswith("crash") and r.get("fired"):
                raise core.HarnessError("crash variant %r fired but the child survived" % (pt,))
            # reported error (or fault point not reached): the faulted calls themselves must be correct
            for res in r["results"]:
                want = _expected(scn, res["fn"])
                if "exc" in want:
                    if res.get("exc") != want["exc"]:
                        out.violation("%s: call %s gave %r during the fault, expected exception %s" % (label, res["fn"], res, want["exc"]),
                                      symptom="faulted-call-wrong", variant=pt["variant"], on=pt["rel_kind"])
                elif not _same(res.get("ok"), want["ok"]) or "exc" in res:
                    out.violation("%s: call %s gave %r during the reported I/O error, expected %r" % (label, res["fn"], {k: res[k] for k in res if k != "runs"}, want["ok"]),
                                  symptom="faulted-call-wrong", variant=pt["variant"], on=pt["rel_kind"])
            # ... and so must the same calls made again by the surviving process (twice)
            for i, res in enumerate(r.get("again", [])):
                want = _expected(scn, res["fn"])
                if "exc" in want:
                    if res.get("exc") != want["exc"] and res.get("exc") != "MementoException":
                        out.violation("%s: the surviving process called %s again and got %r, expected exception %s" % (label, res["fn"], {k: res[k] for k in res if k != "runs"}, want["exc"]),
                                      symptom="same-process-call-wrong", variant=pt["variant"], on=pt["rel_kind"])
                elif "exc" in res:
                    out.violation("%s: the surviving process called %s again and it raised %s: %s" % (label, res["fn"], res["exc"], res["msg"]),
                                  symptom="same-process-call-raised", variant=pt["variant"], on=pt["rel_kind"], exc=res["exc"])
                elif not _same(res.get("ok"), want["ok"]):
                    out.violation("%s: the surviving process called %s again and got %r, expected %r" % (label, res["fn"], res.get("ok"), want["ok"]),
                                  symptom="same-process-call-wrong", variant=pt["variant"], on=pt["rel_kind"])
        # afterwards: fresh process, no faults, three calls of every function
        calls = [[f, 1] for f in VERIFY[scn["topology"]] for _ in range(3)]
        vspec = {"store": store, "base": d, "cache": scn["cache"], "value": scn["value"], "calls": calls}
        if second is not None:
            # second fault during the first recovery write, then verify again fault-free
            r2 = proc.forkrun(_child, dict(vspec, calls=[[f, 1] for f in VERIFY[scn["topology"]]],
                                           plan={"event": second["event"], "variant": second["variant"], "k": second["k"]}),
                              crash_code=faults.CRASH_CODE)
            label += " then %s at operation %d of the recovery" % (second["variant"], second["event"])
        v = proc.forkrun(_child, vspec)
        per_fn = {}
        for res in v["results"]:
            per_fn.setdefault(res["fn"], []).append(res)
        for fname, rs in per_fn.items():
            want = _expected(scn, fname)
            for i, res in enumerate(rs):
                if "exc" in want:
                    if res.get("exc") != want["exc"] and not (res.get("exc") == "MementoException"):
                        out.violation("after %s: call %d of %s gave %r, expected exception %s" % (label, i + 1, fname, {k: res[k] for k in res if k != "runs"}, want["exc"]),
                                      symptom="later-call-raised" if "exc" in res else "later-call-wrong", variant=pt["variant"], on=pt["rel_kind"])
                elif "exc" in res:
                    out.violation("after %s: call %d of %s raised %s: %s" % (label, i + 1, fname, res["exc"], res["msg"]),
                                  symptom="later-call-raised", variant=pt["variant"], on=pt["rel_kind"], exc=res["exc"])
                elif not _same(res.get("ok"), want["ok"]):
                    out.violation("after %s: call %d of %s returned %r, expected %r" % (label, i + 1, fname, res.get("ok"), want["ok"]),
                                  symptom="later-call-wrong", variant=pt["variant"], on=pt["rel_kind"])
                if i >= 1 and res["runs"]:
                    out.violation("after %s: call %d of %s still runs bodies %r - memoization did not recover" % (label, i + 1, fname, res["runs"]),
                                  symptom="permanent-recomputation", variant=pt["variant"], on=pt["rel_kind"])
                    break
        out.nontrivial = pt["on"] != "os.mkdir"
        out.labels = ["variant:" + pt["variant"], "on:" + pt["rel_kind"], "op:" + pt["on"], "topology:" + scn["topology"]] + \
            (["crashed"] if crashed else []) + (["second-fault"] if second else [])
        return out
    finally:
        env.rm(d)


def execute(case, scratch):
    """case = {"scenario": scn, "point": pt | None, "second": pt | None}; point None = all points of the scenario."""
    scn = case["scenario"]
    if case.get("point") is not None:
        out = run_point(scn, case["point"], scratch, case.get("second"))
        out.nt_key = case
        return out
    pts, dry = fault_points(scn, scratch)
    total = core.Outcome()
    total.render = {"scenario": scn, "fault_points": len(pts), "operations": [(e["event"], e["rel"].split(os.sep)[0]) for e in dry["events"]]}
    for pt in pts:
        o = run_point(scn, pt, scratch)
        total.violations += o.violations
        total.labels += o.labels
        total.nontrivial = total.nontrivial or o.nontrivial
        if total.violations:
            break
    total.nt_key = scn
    return total


def replay(case, ctx):
    return execute(case, ctx.scratch)


def scenario_strategy():
    from hypothesis import strategies as st
    S = values.strategies()
    val = st.one_of(S.scalar, st.lists(S.scalar, max_size=3).map(lambda v: {"t": "list", "v": v}), S.nd(), S.partition,
                    st.sampled_from([{"exc": "ValueError", "msg": "m"}, {"exc": "TwoArgErr", "msg": "m"}]))
    def fit(v, t):
        # under a key override the keys of a partition become file names beneath the override key: a key with a lone
        # surrogate cannot be one (the unchanged library raises UnicodeEncodeError on the very first call) - outside the domain
        if t.startswith("override") and "t" in v and values.is_partition_desc(v):
            return dict(v, v={"".join(ch if not 0xD800 <= ord(ch) <= 0xDFFF else "s" for ch in k): x for k, x in v["v"].items()})
        return v

    def topo(v, t):
        # the caller of the "chain" topology returns [callee's value, 1]: a partition inside a list is not a result type
        # (the list would be pickled with a partition that lives in a temporary directory)
        return "single" if (t == "chain" and "t" in v and values.is_partition_desc(v)) else t

    return st.builds(lambda v, t, c: {"scenario": {"value": fit(v, topo(v, t)), "topology": topo(v, t), "cache": c}, "point": None},
                     val, st.sampled_from(["single", "twin", "chain", "override", "override-shared"]), st.booleans())


def run_shard(ctx):
    stats = core.Stats()
    thorough = ctx.tier == "thorough"
    dl = (lambda frac: max((ctx.deadline - time.time()) * frac, 5) if ctx.deadline else None)
    # canonical scenarios: every fault point, spread over the shards
    cases = []
    npts = 0
    for scn in CANONICAL:
        pts, _ = fault_points(scn, ctx.scratch)
        npts += len(pts)
        for pt in pts:
            cases.append({"scenario": scn, "point": pt})
        if thorough:
            # fault sequences of length 2: a representative first fault, every point of the recovery run as second
            firsts = [p for p in pts if p["variant"] in ("crash-empty", "err-write") and "pointer" in p["rel_kind"]][:2]
            for f in firsts:
                for pt in pts[: len(pts)]:
                    cases.append({"scenario": scn, "point": f, "second": pt})
    complete = core.enum_search(cases, lambda c: execute(c, ctx.scratch), stats, findings=ctx.findings, shard=ctx.shard,
                                nshards=ctx.nshards, deadline_s=dl(0.6))
    if ctx.shard == 0:
        stats.extra["canonical_scenarios"] = len(CANONICAL)
        stats.extra["canonical_fault_points"] = npts
    stats.extra["canonical_enumeration_complete"] = 1 if complete else 0
    core.hyp_search(scenario_strategy(), lambda c: execute(c, ctx.scratch), stats, max_examples=30 if thorough else 2,
                    seed=core.hash64(ctx.seed, ID, ctx.shard), findings=ctx.findings, shrink=False, deadline_s=dl(1.0))
    return stats

"""C09 - concurrent callers: single flight per call, correct values, under every schedule."""
import itertools
import os
import time

from vlib import core, env, proc

ID = "C09"
LEVEL = "exploration"
SHARDS = {"quick": 16, "thorough": 16}
RULE = (
    "Scenarios {cold store; warm store + cold cache; warm cache} x {same key; the same call presented positionally / via partial() / by keywords; different keys of one function; different functions; a caller with a nested call racing the nested call itself; two different calls publishing different values under one override key} x {filesystem, filesystem + cache} "
    "x 2-3 threads, each making one memento call. Every execution runs under a deterministic scheduler that owns the interleaving: line events in runner_local/storage_base/runner/call_stack and "
    "function-call events in every other twosigma.memento module are yield points; locks of the library are replaced (by type) with cooperative ones. Schedules: (i) systematic - every schedule with one preemption "
    "(each yield point x each other thread) per scenario (quick: every 2nd-4th yield point for the larger scenarios), thorough adds sampled two-preemption schedules; (ii) random - Hypothesis-generated preemption lists of length <= 8. "
    "Oracle: every thread returns the sequentially correct value, no exception (or deadlock) escapes; per distinct call not memoized beforehand the body ran exactly once; afterwards memory_usage == sum of resident sizes, "
    "the LRU queue has no duplicates and equals the resident keys, and the set of resident keys with values equals that of a sequential execution of the same calls; the recorded invocations of each root call equal its sequential record; called again sequentially after the threads finished, every distinct call is served (no body) with its own value. "
    "Non-trivial = a schedule whose preemption was actually taken while the preempted thread was inside the library; distinct by (scenario, preemption)."
    " Round 5: a scenario with two functions returning partitions."
)
ASSUMPTIONS = [
    "interleavings at line/call granularity; a switch inside one line (e.g. within `memory_usage += n`) is not explored; no OS preemption, no multi-process races",
    "library locks are found by type (threading.Lock/RLock) in twosigma.memento module globals, lock-producing defaultdicts and backend/cache attributes and replaced with cooperative locks",
]
MANIFEST = {
    "level": "exploration",
    "technique": "systematic schedule enumeration (preemption bounding) under a harness-owned deterministic scheduler + Hypothesis-generated preemption lists, oracle = sequential execution",
    "text": "For each scenario every one-preemption interleaving at the stated granularity is executed (plus sampled deeper ones) and compared with sequential execution: values, exactly-once body execution, cache accounting and recorded provenance.",
    "note": "Trusts the scheduler (vlib/sched.py): exactly one worker thread runs between yield points; granularity as stated.",
}

SCENARIOS = []
for store in ("cold", "warm-cold-cache", "warm-cache"):
    for shape in ("same", "diffkey", "difffn", "nested", "presented"):
        for backend in ("fsc", "fs"):
            if backend == "fs" and store != "cold":
                continue
            SCENARIOS.append({"store": store, "shape": shape, "backend": backend, "threads": 2})
SCENARIOS.append({"store": "cold", "shape": "same", "backend": "fsc", "threads": 3})
SCENARIOS.append({"store": "warm-cache", "shape": "same", "backend": "fsc", "threads": 3})
SCENARIOS.append({"store": "cold", "shape": "presented", "backend": "fsc", "threads": 3})
SCENARIOS.append({"store": "cold", "shape": "override-shared", "backend": "fs", "threads": 2})
SCENARIOS.append({"store": "cold", "shape": "partitions", "backend": "fs", "threads": 2})
SCENARIOS.append({"store": "cold", "shape": "override-shared", "backend": "fsc", "threads": 3})


def _calls(scn):
    n = scn["threads"]
    shape = scn["shape"]
    if shape == "same":
        return [["cv", 1]] * n
    if shape == "diffkey":
        return [["cv", 1 + i] for i in range(n)]
    if shape == "difffn":
        return [["cv", 1], ["cv2", 1], ["cv", 1]][:n]
    if shape == "override-shared":
        # two different calls publishing different values under one override key
        return [["ck", 1], ["ck2", 1], ["ck", 1]][:n]
    if shape == "partitions":
        # two different functions whose results are partitions (an index plus members, written through one shared codec)
        return [["cpa", 1], ["cpb", 1], ["cpa", 1]][:n]
    if shape == "batch-forget":
        # a batch over a memoized and a new element while another thread forgets the memoized one (C15's race family)
        return [["cv.batch", 1], ["cv.forget", 1]]
    if shape == "presented":
        # one call, presented positionally / through partial application / by keywords
        return [["cp", 1], ["cp.partial", 1], ["cp.kw", 1]][:n]
    return [["cc", 1], ["cv", 1], ["cc", 1]][:n]


def _child(spec):
    """Forked child: runs all requested schedules of one scenario sequentially, each on a fresh store."""
    import shutil
    import sys
    import twosigma.memento as m
    from twosigma.memento.storage_filesystem import FilesystemStorageBackend
    from twosigma.memento import runner_local
    from vlib import rt, cfuncs, sched
    from vlib import env as venv
    scn = spec["scenario"]
    calls = _calls(scn)
    VAL = {1: "value-one", 2: "value-two", 3: "value-three"}
    for fname in ("cv", "cv2", "cp", "ck", "cpa", "cpb"):
        for k, v in VAL.items():
            rt.TABLE[(fname, k)] = (lambda v: (lambda: v))(v)
    for k, v in VAL.items():
        rt.TABLE[("ck2", k)] = (lambda v: (lambda: "other-" + v))(v)
    expected = {"cv": lambda k: VAL[k], "cv2": lambda k: VAL[k], "cc": lambda k: [VAL[k], 1], "cp": lambda k: VAL[k],
                "cp.partial": lambda k: VAL[k], "cp.kw": lambda k: VAL[k], "ck": lambda k: VAL[k], "ck2": lambda k: "other-" + VAL[k],
                "cpa": lambda k: {"a": VAL[k], "b": k}, "cpb": lambda k: {"x": VAL[k], "y": [k, k]},
                "cv.batch": lambda k: [VAL[k], VAL[k + 1]], "cv.forget": lambda k: None}

    def plain(v):
        # (results cross a JSON pipe; a partition is reported as the dictionary of its members)
        from twosigma.memento.partition import Partition
        if isinstance(v, Partition):
            return {kk: v.get(kk) for kk in sorted(v.list_keys())}
        return v
    counter = [0]

    def prepare():
        counter[0] += 1
        d = os.path.join(spec["base"], "run%d" % counter[0])
        mk = lambda: FilesystemStorageBackend(path=os.path.join(d, "store"), memory_cache_mb=0.5 if scn["backend"] == "fsc" else None)  # noqa: E731
        st = mk()
        venv.set_env(d, {"c": st})
        if scn["store"] == "warm-first":
            cfuncs.FUNCS["cv"](1)
        elif scn["store"] != "cold":
            for fname, k in calls:
                cfuncs.FUNCS[fname](k)
            if scn["store"] == "warm-cold-cache":
                st = mk()
                venv.set_env(d, {"c": st})
        rt.take()
        sched.replace_locks([st, getattr(st, "_memory_cache", None)])
        return d, st

    def cache_view(st):
        mc = getattr(st, "_memory_cache", None)
        if mc is None:
            return None
        lru = list(mc.lru_deque)
        return {"usage": mc.memory_usage, "sum": sum(e.obj_size for e in mc.cache.values()),
                "lru_dupes": len(lru) - len(set(lru)), "lru_eq": set(lru) == set(mc.cache),
                "valued": sorted(k for k, e in mc.cache.items() if e.has_value), "keys": sorted(mc.cache)}

    def record_of(fname, k):
        mem = cfuncs.FUNCS[fname].memento(k)
        if mem is None:
            return None
        return [(r.fn_reference.qualified_name, r.arg_hash) for r in mem.invocation_metadata.invocations]

    def one(preemptions, record_where=False):
        d, st = prepare()
        fns = [(lambda f=f, k=k: cfuncs.FUNCS[f](k)) for f, k in calls]
        s = sched.Scheduler(fns, preemptions)
        s.record_where = record_where
        t0 = time.time()
        res = s.run()
        runs = [x[0] + ":" + str(x[1].get("k")) for x in rt.take()]
        out = {"results": [], "runs": runs, "yields": s.gidx, "taken": s.taken, "deadlock": s.deadlock,
               "cache": cache_view(st), "records": {}}
        for (f, k), r in zip(calls, res):
            if r is None:
                out["results"].append({"unfinished": True})
            elif r[0] == "ok":
                try:
                    out["results"].append({"ok": plain(r[1]), "want": expected[f](k)})
                except BaseException as e:  # noqa  (a partition reads its members when asked)
                    out["results"].append({"exc": type(e).__name__, "msg": "using the returned value: " + str(e)[:200], "where": "use-result"})
            else:
                import traceback
                e = r[1]
                tb = traceback.extract_tb(e.__traceback__)
                where = next(("%s:%s" % (os.path.basename(fr.filename), fr.name) for fr in reversed(tb) if "twosigma" in fr.filename), "?")
                out["results"].append({"exc": type(e).__name__, "msg": str(e)[:200], "where": where})
        for f, k in {(f, k) for f, k in calls}:
            try:
                out["records"]["%s:%s" % (f, k)] = record_of(f, k)
            except BaseException as e:  # noqa
                out["records"]["%s:%s" % (f, k)] = "!%s" % type(e).__name__
        # afterwards, sequentially: every distinct call again (must be served, with its own value)
        out["recalls"] = []
        rt.take()
        for f, k in sorted({(f, k) for f, k in calls}):
            try:
                r = plain(cfuncs.FUNCS[f](k))
                out["recalls"].append({"fn": f, "k": k, "ok": r, "want": expected[f](k), "runs": [x[0] for x in rt.take()]})
            except BaseException as e:  # noqa
                out["recalls"].append({"fn": f, "k": k, "exc": type(e).__name__, "msg": str(e)[:200], "runs": [x[0] for x in rt.take()]})
        if record_where:
            out["where"] = s.trace
        shutil.rmtree(d, ignore_errors=True)
        return out

    if spec.get("baseline"):
        return one([], record_where=True)
    return [one([tuple(p) for p in pre]) for pre in spec["schedules"]]


def sequential_reference(scn, scratch):
    d = env.fresh_dir(scratch, "c09ref-")
    try:
        return proc.forkrun(_child, {"scenario": scn, "base": d, "baseline": True})
    finally:
        env.rm(d)


def judge(scn, pre, res, ref):
    out = core.Outcome()
    calls = _calls(scn)
    label = "%s/%s/%s x%d, preemptions %r (taken at %s)" % (scn["store"], scn["shape"], scn["backend"], scn["threads"], pre,
                                                          [t[3] for t in res["taken"]])
    where = (res["taken"][0][3].rsplit(":", 1)[0] if res["taken"] else "-")
    if res["deadlock"]:
        out.violation("%s: deadlock - every unfinished thread is blocked on a library lock" % label, symptom="deadlock", at=where)
    for i, r in enumerate(res["results"]):
        if r.get("unfinished"):
            if not res["deadlock"]:
                out.violation("%s: thread %d never finished" % (label, i), symptom="unfinished")
        elif "exc" in r:
            out.violation("%s: thread %d (%s) raised %s: %s at %s" % (label, i, calls[i], r["exc"], r["msg"], r.get("where")),
                          symptom="exception", exc=r["exc"], where=r.get("where"))
        elif r["ok"] != r["want"]:
            out.violation("%s: thread %d (%s) returned %r, sequential value %r" % (label, i, calls[i], r["ok"], r["want"]), symptom="wrong-value")
    # exactly-once execution per distinct call that was not memoized beforehand
    distinct = {(f.split(".")[0], k) for f, k in calls}
    if scn["shape"] == "nested":
        distinct.add(("cv", 1))
    for f, k in sorted(distinct):
        n = res["runs"].count("%s:%s" % (f, k))
        want = 1 if scn["store"] == "cold" else 0
        if n != want:
            out.violation("%s: body of %s(%s) ran %d times, expected %d" % (label, f, k, n, want), symptom="runs", runs=min(n, 2), at=where)
    if not out.violations:
        for rr in res.get("recalls", []):
            if "exc" in rr:
                out.violation("%s: calling %s(%s) again after the threads finished raised %s: %s" % (label, rr["fn"], rr["k"], rr["exc"], rr["msg"]),
                              symptom="later-call-raised", exc=rr["exc"], at=where)
            elif rr["ok"] != rr["want"]:
                out.violation("%s: calling %s(%s) again after the threads finished returned %r, its own value is %r" % (label, rr["fn"], rr["k"], rr["ok"], rr["want"]),
                              symptom="later-call-wrong-value", at=where)
            elif rr["runs"]:
                out.violation("%s: %s(%s) is not memoized after the threads finished (body ran again: %r)" % (label, rr["fn"], rr["k"], rr["runs"]),
                              symptom="not-memoized-afterwards", at=where)
    c, rc = res["cache"], ref["cache"]
    if c is not None:
        if c["usage"] != c["sum"]:
            out.violation("%s: memory_usage=%s but resident entries account for %s" % (label, c["usage"], c["sum"]), symptom="usage-drift", at=where)
        if c["lru_dupes"] or not c["lru_eq"]:
            out.violation("%s: LRU queue inconsistent (duplicates=%d, equals resident keys=%s)" % (label, c["lru_dupes"], c["lru_eq"]), symptom="lru-inconsistent", at=where)
        if rc is not None and c["valued"] != rc["valued"]:
            out.violation("%s: resident values %r, a sequential execution leaves %r" % (label, [k.split(":")[-1][:20] for k in c["valued"]], [k.split(":")[-1][:20] for k in rc["valued"]]),
                          symptom="cache-differs-from-sequential", at=where)
    for key, rec in res["records"].items():
        if rec != ref["records"].get(key):
            out.violation("%s: recorded invocations of %s are %r, sequentially %r" % (label, key, rec, ref["records"].get(key)),
                          symptom="provenance-differs", at=where)
    out.nontrivial = bool(res["taken"])
    out.labels = ["store:" + scn["store"], "shape:" + scn["shape"], "backend:" + scn["backend"], "threads:%d" % scn["threads"]] + \
        (["preemption-taken"] if res["taken"] else []) + ["at:" + t[3].split(":")[0] for t in res["taken"][:1]]
    out.nt_key = [scn, [list(t[:3]) for t in res["taken"]]]
    out.render = {"scenario": scn, "preemptions": pre, "taken": res["taken"], "yield_points": res["yields"]}
    return out


def execute(case, scratch):
    scn = case["scenario"]
    d = env.fresh_dir(scratch, "c09-")
    try:
        ref = case.get("_ref") or sequential_reference(scn, scratch)
        res = proc.forkrun(_child, {"scenario": scn, "base": d, "schedules": [case["preemptions"]]}, timeout=300)[0]
        return judge(scn, case["preemptions"], res, ref)
    finally:
        env.rm(d)


def replay(case, ctx):
    return execute(case, ctx.scratch)


# -- race families of other properties (C15, C17): the same scheduler, a lighter oracle ---------------------------------

def race_family(scn, scratch, stride):
    """every one-preemption schedule (every `stride`-th yield point) of scenario `scn`"""
    ref = sequential_reference(scn, scratch)
    return [{"kind": "race", "scenario": scn, "preemptions": [[g, t]]} for g in range(0, ref["yields"], stride) for t in range(scn["threads"])]


def execute_race(case, scratch, what):
    """
    Runs one schedule; oracle: no thread raises, hangs or returns anything but its sequential value, and every call made
    again afterwards returns its own value. (Nothing is asserted about how often a body runs.)
    """
    scn, pre = case["scenario"], case["preemptions"]
    out = core.Outcome()
    d = env.fresh_dir(scratch, "c09x-")
    try:
        res = proc.forkrun(_child, {"scenario": scn, "base": d, "schedules": [pre]}, timeout=300)[0]
    finally:
        env.rm(d)
    calls = _calls(scn)
    label = "%s, preemptions %r (taken at %s)" % (what, pre, [t[3] for t in res["taken"]])
    where = (res["taken"][0][3].rsplit(":", 1)[0] if res["taken"] else "-")
    if res["deadlock"]:
        out.violation("%s: deadlock" % label, symptom="deadlock", race=True)
    for i, r in enumerate(res["results"]):
        if r.get("unfinished"):
            if not res["deadlock"]:
                out.violation("%s: thread %d never finished" % (label, i), symptom="unfinished", race=True)
        elif "exc" in r:
            out.violation("%s: thread %d (%s) raised %s: %s at %s" % (label, i, calls[i], r["exc"], r["msg"], r.get("where")),
                          symptom="exception", exc=r["exc"], where=r.get("where"), race=True)
        elif r["ok"] != r["want"]:
            out.violation("%s: thread %d (%s) returned %r, sequential value %r" % (label, i, calls[i], r["ok"], r["want"]), symptom="wrong-value", race=True)
    if not out.violations:
        for rr in res.get("recalls", []):
            if "exc" in rr:
                out.violation("%s: calling %s(%s) again after the threads finished raised %s: %s" % (label, rr["fn"], rr["k"], rr["exc"], rr["msg"]),
                              symptom="later-call-raised", exc=rr["exc"], race=True)
            elif rr["ok"] != rr["want"]:
                out.violation("%s: calling %s(%s) again after the threads finished returned %r, its own value is %r" % (label, rr["fn"], rr["k"], rr["ok"], rr["want"]),
                              symptom="later-call-wrong-value", race=True)
    out.nontrivial = bool(res["taken"])
    out.labels = ["family:race", "shape:" + scn["shape"]] + (["race:preemption-taken"] if res["taken"] else [])
    out.nt_key = ["race", scn["shape"], [list(t[:3]) for t in res["taken"]]]
    out.render = {"scenario": scn, "preemptions": pre, "taken": res["taken"], "where": where}
    return out


def run_shard(ctx):
    stats = core.Stats()
    thorough = ctx.tier == "thorough"
    t_end = ctx.deadline
    found = set()
    total_yields = 0
    for si, scn in enumerate(SCENARIOS):
        if t_end and time.time() > t_end:
            stats.truncated = True
            break
        ref = sequential_reference(scn, ctx.scratch)
        n = ref["yields"]
        if si % ctx.nshards == ctx.shard:
            total_yields += n
        stride = 1 if (thorough or n <= 600) else (2 if n <= 1200 else 4)
        scheds = []
        for g in range(0, n, stride):
            for t in range(scn["threads"]):
                scheds.append([[g, t]])
        if thorough:
            # sampled two-preemption schedules
            step = max(n // 40, 1)
            for g1 in range(0, n, step):
                for g2 in range(g1 + 1, n, step * 3):
                    scheds.append([[g1, 1], [g2, 0]])
        mine = [s for i, s in enumerate(scheds) if (i + si) % ctx.nshards == ctx.shard]
        for b in range(0, len(mine), 60):
            if t_end and time.time() > t_end:
                stats.truncated = True
                break
            batch = mine[b:b + 60]
            d = env.fresh_dir(ctx.scratch, "c09b-")
            try:
                results = proc.forkrun(_child, {"scenario": scn, "base": d, "schedules": batch}, timeout=600)
            finally:
                env.rm(d)
            for pre, res in zip(batch, results):
                out = judge(scn, pre, res, ref)
                case = {"scenario": scn, "preemptions": pre}
                stats.record(case, out)
                for v in out.violations:
                    f = core.match_finding(v["signature"], ctx.findings)
                    if f is not None:
                        stats.known_hits[f["id"]] = stats.known_hits.get(f["id"], 0) + 1
                        continue
                    k = core.sig_key(v["signature"])
                    if k not in found:
                        found.add(k)
                        stats.add_violation(case, v)
    stats.extra["systematic_schedules"] = stats.evaluations
    stats.extra["yield_points_in_baselines"] = total_yields
    # random deeper schedules
    from hypothesis import strategies as st
    strat = st.builds(lambda i, pre: {"scenario": SCENARIOS[i % len(SCENARIOS)], "preemptions": [list(p) for p in pre]},
                      st.integers(0, len(SCENARIOS) - 1),
                      st.lists(st.tuples(st.integers(0, 700), st.integers(0, 2)), min_size=2, max_size=8).map(sorted))
    core.hyp_search(strat, lambda c: execute(c, ctx.scratch), stats, max_examples=400 if thorough else 6,
                    seed=core.hash64(ctx.seed, ID, ctx.shard), findings=ctx.findings, shrink=thorough,
                    deadline_s=(t_end - time.time()) if t_end else None)
    return stats

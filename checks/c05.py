"""C05 - every storage backend behaves like one dictionary of memoized calls."""
import os
import time

from vlib import core, env, storeops, storegen

ID = "C05"
LEVEL = "exploration"
SHARDS = {"quick": 16, "thorough": 16}
RULE = (
    "Histories of StorageBackend operations (memoize with/without key override, get_memento(s), "
    "read_result, is_memoized, is_all_memoized, forget call/function/everything, list_functions, "
    "list_mementos[limit], write/read_metadata, reopen) run in lock-step on filesystem, filesystem+cache "
    "(budget 2 KiB..16 MiB) and memory backends against a dict keyed by (qualified name, arg hash); "
    "after every op (sweep=full) or at the end (sweep=none) all touched keys and both listings are compared. "
    "Two generators: (a) all sequences up to length L (3 quick / 4 thorough) over 15 ops on keys f#1/f#10 (memoize small / other small / oversize str / oversize numpy array / None per key, forget call per key, forget function, forget everything, reopen) "
    "(exhaustive), (b) Hypothesis histories up to 30/80 ops with 60% hot-key bias and sizes relative to the budget. "
    "Non-trivial = history re-memoizes a live key, re-adds a forgotten key, stores an oversize/cache-filling value, "
    "looks up an absent key before a listing, or has prefix-related names live together; distinct by op-kind sequence."
    " Round 5: a third of the histories build their stores from a configuration dict that was used before for another (decoy) store holding results for the same calls, and whose path / cache size the keyword arguments override; values include partitions."
    " Round 6: custom metadata keys, override keys with glob metacharacters; calls with structured / date-time arguments (aware non-UTC, naive, date, nested dictionary, float); a 150-row frame whose sampled size estimate scatters around the budget."
)
ASSUMPTIONS = [
    "single process, no concurrent writers; str size classes use sys.getsizeof("")+n of the running interpreter",
    "custom metadata is only written for calls that have a memento (as put_metadata enforces)",
    "store_with_content_key metadata is outside the dictionary model (keyed by content by design)",
    "non-registered version f#10 is stored through an external FunctionReference, as a remote runner would",
]

NT_LABELS = {"rememoize-live", "forget-then-readd", "oversize", "lookup-absent", "prefix-pair-live"}


def execute(case, scratch):
    d = env.fresh_dir(scratch, "c05-")
    try:
        sess = storeops.Session(d, case)
        _annotate(sess, case)
        out = sess.run()
        out.nontrivial = bool(set(out.labels) & NT_LABELS)
        out.nt_key = storegen.op_shape(case)
        return out
    finally:
        env.rm(d)


def _annotate(sess, case):
    b = (case.get("budget_kb") or 0) * 1024
    live = set()
    for op in case["ops"]:
        if op[0] == "memoize":
            v = op[3]
            if v.get("n", 0) + storegen.STR_OVERHEAD > b > 0:
                sess.labels.add("oversize")
            live.add(op[1])
        if {"f#1", "f#10"} <= live or {"f#1", "f2#1"} <= live or {"fa#10", "fab#1"} <= live:
            sess.labels.add("prefix-pair-live")


def replay(case, ctx):
    return execute(case, ctx.scratch)


def run_shard(ctx):
    stats = core.Stats()
    thorough = ctx.tier == "thorough"
    ex = lambda c: execute(c, ctx.scratch)  # noqa: E731
    complete = core.enum_search(
        storegen.small_scope_cases(4 if thorough else 3), ex, stats, findings=ctx.findings,
        shard=ctx.shard, nshards=ctx.nshards, deadline_s=_left(ctx, 0.5))
    stats.extra["exhaustive_sequences"] = stats.evaluations
    n = 5000 if thorough else 110
    core.hyp_search(storegen.history_strategy(80 if thorough else 30, overrides=True), ex, stats,
                    max_examples=n, seed=core.hash64(ctx.seed, ID, ctx.shard), findings=ctx.findings,
                    shrink=True, deadline_s=_left(ctx, 1.0))
    stats.exhaustive = None  # mixed: the small-scope part is exhaustive, the random part is not
    stats.extra["small_scope_complete"] = bool(complete)
    return stats


def _left(ctx, frac):
    if not ctx.deadline:
        return None
    return max((ctx.deadline - time.time()) * frac, 5)

MANIFEST = {
    "level": "exploration",
    "technique": "model-based property testing: Hypothesis-generated and exhaustively enumerated operation histories against a dictionary reference model, three backends in lock-step",
    "text": "Every StorageBackend answer in a generated history is compared with a plain dict model on filesystem, filesystem+cache and memory backends; all sequences up to length 3 (quick) / 4 (thorough) over a 15-operation alphabet are enumerated, plus biased random histories. This explores, it does not prove: bounds are stated in evidence.",
    "note": "Trusts the harness' dictionary model and value equality (vlib/storeops.py, vlib/values.py); single process, no concurrent writers.",
}

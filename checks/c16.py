"""C16 - context arguments key results, flow to nested calls, stay out of parameters."""
import os
import time

from vlib import core, env, trees, argspec
from vlib.excs import lib_exception_signature

ID = "C16"
LEVEL = "exploration"
SHARDS = {"quick": 16, "thorough": 16}
RULE = (
    "Hypothesis generates call trees (as C10) with a context-argument dict at the root (or none) and overrides - including the empty dict - on arbitrary inner edges; "
    "half of the functions accept **kwargs so leakage into parameters is observable; the tree is run under root context 1 on an empty store, then under root context 2 on the same store, "
    "and once with further calls prevented (on an empty store and on a store where every sub-call is already memoized); the prevention is also attached to an inner edge (t0 calls its first callee with further calls prevented: the callee's body may run, everything beneath it must fail with RuntimeError, memoized or not). Oracle: a model of inheritance (effective context of an edge = its "
    "override if it attaches one, else the caller's): the recorded context_args and arg hash of every nested invocation equal the model; under the second root context exactly the calls whose "
    "effective (function, argument, context) is new run, the others are served; no body ever receives a context key as a parameter; with further calls prevented every nested memento call "
    "raises RuntimeError and no nested body runs. Non-trivial = an override below an inherited context, or two root contexts sharing a subtree; distinct by (tree, contexts)."
    " Round 5: while t0 is suspended at a pause point under context arguments (second variant: with further calls prevented), another thread makes an unrelated top-level call without context: it must succeed, be stored without context arguments and not under the suspended caller's context."
    " Round 6: context arguments optionally attached over a look-alike dictionary (1 / True / 1.0 ...) that the real one replaces."
)
ASSUMPTIONS = [
    "context values are strings/ints; the empty dict override means 'no context arguments below this edge'",
    "explicit function versions (dynamic dispatch allowed); single thread; local runner",
]
MANIFEST = {
    "level": "exploration",
    "technique": "property-based testing with Hypothesis: generated call trees with context overrides checked against an executable inheritance model and the execution trace; an unrelated call from a second thread at a harness-chosen pause point",
    "text": "Each generated tree is executed under two root contexts and with further calls prevented; recorded context arguments, argument hashes, hit/miss behaviour and received parameters are compared with a small reference model of context inheritance.",
    "note": "Trusts the inheritance model in checks/c16.py and the harness trace.",
}


def _norm(ctx):
    return dict(ctx) if ctx else {}


def _key(fn, arg, ctx):
    return (fn, arg, argspec.canonical_json(_norm(ctx)))


class Model:
    """Simulates the program with memoization keyed by (fn, arg, effective context)."""

    def __init__(self, prog):
        self.prog = prog
        self.store = {}      # key -> "ok"|"exc"
        self.records = {}    # key -> list of (fn, arg, ctx) direct invocations
        self.executed = []   # (fn, arg) in execution order, this run

    def call(self, fn, arg, ctx):
        k = _key(fn, arg, ctx)
        if k in self.store:
            return self.store[k]
        self.executed.append((fn, arg))
        inv = []
        outcome = "ok"
        for act in self.prog["nodes"].get(fn, []):
            if act["a"] == "call":
                cctx = act["ctx"] if act.get("ctx") is not None else ctx
                a = arg + act.get("d", 0)
                inv.append((act["fn"], a, _norm(cctx)))
                r = self.call(act["fn"], a, cctx)
                if r == "exc" and not act.get("catch", True):
                    outcome = "exc"
                    break
            elif act["a"] == "batch":
                for dd in act["ds"]:
                    inv.append((act["fn"], arg + dd, _norm(ctx)))
                # the bulk pre-check of a batch happens before any element runs: an element that is
                # memoized only by an earlier element of the same batch is still looked up per element
                for dd in act["ds"]:
                    self.call(act["fn"], arg + dd, ctx)
            elif act["a"] == "raise":
                outcome = "exc"
                break
        self.store[k] = outcome
        self.records[k] = inv
        return outcome


_tx = [5000]


def _fresh(case, d, name):
    kind = {"fs": "fs", "fsc": "fs", "mem": "memory"}[case["backend"]]
    st = env.make_backend(kind, os.path.join(d, name), cache_mb=0.05 if case["backend"] == "fsc" else None)
    env.set_env(d, {"c": st})
    return st


def _root(ctx, prevent=False):
    f = trees.t0
    if ctx is not None:
        f = trees.attach(f, ctx, trees.STATE.get("attach_twice"))
    if prevent:
        f = f.with_prevent_further_calls(True)
    return f


def _run_root(ctx, x, prevent=False):
    try:
        return ("ok", _root(ctx, prevent)(x))
    except Exception as e:
        return ("exc", e)


def _check_records(out, model, label):
    for (fn, arg, cj), inv in model.records.items():
        import json
        ctx = json.loads(cj)
        f = trees.FUNCS[fn]
        if ctx:
            f = f.with_context_args(ctx)
        try:
            mem = f.memento(arg)
        except Exception as e:
            sig = lib_exception_signature(e)
            if sig is None:
                raise
            out.violation("memento() raised %r" % (e,), symptom="exception", **sig)
            continue
        if mem is None:
            out.violation("%s: no memento stored for %s(%s) under context %s" % (label, fn, arg, cj),
                          symptom="not-stored-under-effective-context", empty=not ctx)
            continue
        got = [(r.fn_reference.qualified_name, argspec.canonical_json(argspec.spec_encode(dict(r.context_args or {}))), r.arg_hash)
               for r in mem.invocation_metadata.invocations]
        want = []
        for (cf, ca, cctx) in inv:
            ref = trees.FUNCS[cf].fn_reference()
            want.append((ref.qualified_name, argspec.canonical_json(cctx),
                         argspec.spec_hash({"x": ca}, cctx)))
        if got != want:
            out.violation("%s: %s(%s) under %s recorded nested invocations %r, the inheritance model says %r" % (
                label, fn, arg, cj, [(g[0].split(":")[-1], g[1], g[2][:6]) for g in got],
                [(w[0].split(":")[-1], w[1], w[2][:6]) for w in want]), symptom="nested-context-differs")


def execute(case, scratch):
    out = core.Outcome()
    d = env.fresh_dir(scratch, "c16-")
    try:
        files = os.path.join(d, "files")
        os.makedirs(files)
        prog, x = case["program"], case["x"]
        c1, c2 = case["ctx1"], case["ctx2"]
        # (context arguments are attached to a function that already carries a look-alike of them: 1 / True / 1.0 ...)
        trees.STATE["attach_twice"] = bool(case.get("attach_twice"))
        _fresh(case, d, "main")
        model = Model(prog)
        # run 1
        trees.begin(prog, files)
        _run_root(c1, x)
        trace = trees.take_trace()
        model.call("t0", x, c1)
        _check_run(out, trace, model, "run under %r" % (c1,))
        _check_records(out, model, "run 1")
        # run 2 on the same store
        if not out.violations:
            model.executed = []
            _run_root(c2, x)
            trace2 = trees.take_trace()
            model.call("t0", x, c2)
            _check_run(out, trace2, model, "second run under %r after %r" % (c2, c1))
            _check_records(out, model, "run 2")
        # further calls prevented: on the populated store (root forgotten) and on an empty one
        has_calls = any(a["a"] in ("call", "batch") for a in prog["nodes"].get("t0", []))
        if not out.violations:
            for variant in ("populated", "empty"):
                if variant == "empty":
                    _fresh(case, d, "prevent")
                else:
                    try:
                        _root(c1).forget(x)
                    except Exception:
                        pass
                trees.take_trace()
                kind, res = _run_root(c1, x, prevent=True)
                tr = trees.take_trace()
                nested = [r for r in tr if r["node"] != "t0"]
                if nested:
                    out.violation("with further calls prevented (%s store) nested bodies ran: %r" % (variant, [(r["node"], r["x"]) for r in nested]),
                                  symptom="prevented-call-executed", store=variant)
                for r in tr:
                    if r["node"] == "t0":
                        bad = [c for c in r["calls"] if c["outcome"] not in ("exc:RuntimeError", None, "batch")]
                        if bad:
                            out.violation("with further calls prevented (%s store) nested call %s(%s) gave %s instead of RuntimeError" % (
                                variant, bad[0]["fn"], bad[0]["arg"], bad[0]["outcome"]), symptom="prevented-call-not-refused", store=variant)
                first = next((a for a in prog["nodes"].get("t0", []) if a["a"] in ("call", "batch", "raise")), None)
                if first is not None and first["a"] == "batch" and not (kind == "exc" and isinstance(res, RuntimeError)):
                    out.violation("with further calls prevented a nested call_batch did not raise RuntimeError (root outcome %s %r)" % (kind, res),
                                  symptom="prevented-call-not-refused", store=variant)
        # prevention attached to an inner edge: t0 makes one call "with further calls prevented"; the callee's own body may
        # run, but every memento call made beneath it must fail with RuntimeError and no deeper body may run
        inner = next((a for a in prog["nodes"].get("t0", []) if a["a"] == "call"), None)
        if not out.violations and inner is not None and any(a["a"] in ("call", "batch") for a in prog["nodes"].get(inner["fn"], [])):
            import copy
            p2 = copy.deepcopy(prog)
            p2["nodes"]["t0"] = [dict(inner, prevent=True, catch=True, ctx=None)]
            tname, targ = inner["fn"], x + inner.get("d", 0)
            for variant in ("empty", "populated"):
                _fresh(case, d, "inner-" + variant)
                if variant == "populated":
                    trees.begin(dict(p2, nodes=dict(p2["nodes"], t0=[dict(inner, catch=True, ctx=None)])), files)
                    _run_root(None, x)
                    for fn_, a_ in (("t0", x), (tname, targ)):
                        try:
                            trees.FUNCS[fn_].forget(a_)
                        except Exception:
                            pass
                trees.begin(p2, files)
                trees.take_trace()
                _run_root(None, x)
                tr = trees.take_trace()
                deeper = [(r["node"], r["x"]) for r in tr if r["node"] not in ("t0", tname) or (r["node"] == tname and r["x"] != targ)]
                if deeper:
                    out.violation("a call made with further calls prevented (inner edge t0 -> %s, %s store): bodies beneath it ran: %r" % (tname, variant, deeper),
                                  symptom="prevented-call-executed", store=variant, edge="inner")
                for r in tr:
                    if r["node"] == tname and r["x"] == targ:
                        bad = [c for c in r["calls"] if c["outcome"] not in ("exc:RuntimeError", None, "batch")]
                        if bad:
                            out.violation("a call made with further calls prevented (inner edge t0 -> %s, %s store): its nested call %s(%s) gave %s instead of RuntimeError" % (
                                tname, variant, bad[0]["fn"], bad[0]["arg"], bad[0]["outcome"]), symptom="prevented-call-not-refused", store=variant, edge="inner")
            trees.begin(prog, files)
            out.labels.append("prevent-on-inner-edge")
        # an unrelated top-level call made by another thread while a body that runs under context arguments (and, second
        # variant, with further calls prevented) is suspended: it has no caller, so it inherits nothing and is not refused
        if not out.violations:
            import copy
            import threading
            p3 = copy.deepcopy(prog)
            p3["nodes"]["t0"] = [{"a": "pause"}] + p3["nodes"].get("t0", [])
            vctx = c1 if c1 else {"tenant": "a"}
            for prevent in (False, True):
                _fresh(case, d, "visitor-%d" % prevent)
                trees.begin(p3, files)
                reached, resume, fired = threading.Event(), threading.Event(), [False]

                def hook():
                    if not fired[0]:
                        fired[0] = True
                        reached.set()
                        resume.wait(60)
                trees.STATE["pause_hook"] = hook
                th = threading.Thread(target=_run_root, args=(vctx, x, prevent))
                th.start()
                got = None
                try:
                    while th.is_alive() and not reached.wait(0.005):
                        pass
                    if reached.is_set():
                        _tx[0] += 1
                        try:
                            got = ("ok", trees.tx(_tx[0]))
                        except Exception as e:
                            got = ("exc", e)
                finally:
                    resume.set()
                    th.join()
                    trees.STATE["pause_hook"] = None
                trees.take_trace()
                if got is None:
                    continue
                out.labels.append("unrelated-call-from-other-thread-during-body")
                if got != ("ok", _tx[0]):
                    out.violation("a top-level call made by another thread while t0 ran under %r%s gave %r" % (
                        vctx, " with further calls prevented" if prevent else "", got), symptom="other-thread-call-affected", prevent=prevent)
                    break
                mem_plain = trees.tx.memento(_tx[0])
                mem_ctx = trees.tx.with_context_args(dict(vctx)).memento(_tx[0])
                held = None if mem_plain is None else dict(mem_plain.invocation_metadata.fn_reference_with_args.context_args or {})
                if mem_plain is None or held or mem_ctx is not None:
                    out.violation("a top-level call without context arguments made by another thread while t0 ran under %r is stored %s" % (
                        vctx, "under that context" if mem_ctx is not None else ("with context %r" % (held,) if held else "nowhere")),
                        symptom="other-thread-call-inherited-context")
                    break
            trees.begin(prog, files)
        overrides_below = _has_override_below_inherited(prog, c1) or _has_override_below_inherited(prog, c2)
        shared = _norm(c1) != _norm(c2) and len(model.store) > 2
        out.nontrivial = overrides_below or shared
        out.labels = out.labels + ["backend:" + case["backend"]] + (["context-attached-over-a-look-alike"] if case.get("attach_twice") else []) + (["override-below-inherited"] if overrides_below else []) + \
            (["two-contexts"] if _norm(c1) != _norm(c2) else []) + (["empty-override"] if _has_empty_override(prog) else [])
        out.nt_key = [prog, c1, c2]
        return out
    except Exception as e:
        sig = lib_exception_signature(e)
        if sig is None:
            raise
        out.violation("unexpected %r" % (e,), symptom="exception", **sig)
        return out
    finally:
        env.rm(d)


def _has_empty_override(prog):
    return any(a.get("ctx") == {} for acts in prog["nodes"].values() for a in acts if a["a"] == "call")


def _has_override_below_inherited(prog, root_ctx):
    if not root_ctx:
        return False
    return any(a.get("ctx") is not None for acts in prog["nodes"].values() for a in acts if a["a"] == "call")


def _check_run(out, trace, model, label):
    ran = [(r["node"], r["x"]) for r in trace]
    if sorted(ran) != sorted(model.executed):
        extra = sorted(set(ran) - set(model.executed))
        missing = sorted(set(model.executed) - set(ran))
        sym = "served-across-contexts" if missing and not extra else ("recomputed-although-same-context" if extra and not missing else "executions-differ")
        out.violation("%s: bodies that ran %r, the model (results keyed by function, argument and effective context) expects %r" % (
            label, sorted(ran), sorted(model.executed)), symptom=sym)
    for r in trace:
        if r["kwargs"]:
            out.violation("%s: body of %s received extra parameters %r" % (label, r["node"], r["kwargs"]), symptom="context-leaked-into-parameters")


def replay(case, ctx):
    return execute(case, ctx.scratch)


def strategy(thorough):
    from hypothesis import strategies as st
    rootctx = st.one_of(st.none(), st.just({}), st.dictionaries(st.sampled_from(["tenant", "asof", "k"]), st.sampled_from(["a", "b", 1, 2, True, 0]), min_size=1, max_size=2))
    return st.builds(lambda p, x, a, b, be, tw: {"program": p, "x": x, "ctx1": a, "ctx2": b, "backend": be, "attach_twice": tw},
                     trees.program_strategy(with_ctx=True, max_nodes=7 if thorough else 5), st.integers(0, 1), rootctx, rootctx,
                     st.sampled_from(["mem", "mem", "fs", "fsc"]), st.booleans())


def run_shard(ctx):
    stats = core.Stats()
    thorough = ctx.tier == "thorough"
    core.hyp_search(strategy(thorough), lambda c: execute(c, ctx.scratch), stats, max_examples=25000 if thorough else 400,
                    seed=core.hash64(ctx.seed, ID, ctx.shard), findings=ctx.findings,
                    deadline_s=(ctx.deadline - time.time()) if ctx.deadline else None)
    return stats

"""C13 - the in-process version cache is coherent with a from-scratch computation."""
import itertools
import os
import time

from vlib import core, env, progs, progrun, proc

ID = "C13"
LEVEL = "exploration"
SHARDS = {"quick": 16, "thorough": 16}
RULE = (
    "In one running process, generated sequences of events over a generated program: re-define a memento or plain function (any edit kind of C01: literals, nested constants, defaults, "
    "set/tuple members, call-edge retarget, hide/unhide), rebind a tracked variable, mutate a list/dict (also a list held by a tuple) in place, define a function or variable that was referenced - by bare name or as a missing attribute of another module - but undefined (or bound to an opaque placeholder object) so far, move a function to another cluster, rebind a function's name to its underlying plain function and back to the saved memento object (plain assignments), re-bind a plain helper's name to a helper of identical text in the other module (which reads that module's variable of the same name), replace a memento "
    "function by a plain one and back, lock the clusters around a variable change, with a version query of every memento function after every event (or only at the end), plus queries through "
    "freshly created modifier clones (partial, force_local, with_context_args; asked either after or BEFORE the function they are cloned from), through fn_reference() and through an unregistered MementoFunction(fn, register_fn=False). Oracle: a fresh forked "
    "process builds the resulting program (the final namespace: latest definition of each name, each as its own cell, in definition order) and computes the versions. A query must succeed and equal the fresh value, except while the cluster is locked "
    "(then it must only not raise). Generators: all event sequences of length <= 2 (quick) / 3 (thorough) over a fixed 3-function/1-variable program with a 11-event alphabet (exhaustive) + Hypothesis "
    "sequences of up to 6/10 events over generated programs. Non-trivial = a query separated from the previous query of the same function by an event that changes that function's fresh version; "
    "distinct by (program, events)."
    " Round 5: renamed definitions (a late-defined variable or helper named like a builtin; very long names)."
    " Round 6: references from nested scopes, variables as parameter defaults (mutated in place, never re-bound), declared dependencies; the exhaustive family also runs on a variant whose root declares a dynamically reached memento function."
)
ASSUMPTIONS = [
    "both the running process and the fresh process define every function as its own compilation unit (notebook cell): CPython compiles `mod.attr(...)` differently when `import mod` belongs to the same unit, so cell-defined and file-defined functions have different bytecode and hence different code hashes",
    "programs have no aliases/wrappers (an alias keeps the old object after an in-process re-definition, so the namespace would not be expressible as a flat program)",
    "modifier clones are queried right after creation (a clone pins the version it was created with; a clone kept across later edits is a known limitation, see DESIGN.md)",
    "'fresh process' is a forked child of a process that imported twosigma.memento but no generated code",
]
MANIFEST = {
    "level": "exploration",
    "technique": "model-based property testing: enumerated + Hypothesis-generated in-process event histories with interleaved version queries, oracle = fresh-process recomputation on the flattened resulting program",
    "text": "After every event of every generated history the version of every memento function (and of clones / unregistered wrappers) is compared with the version a fresh process computes for the resulting program.",
    "note": "Trusts the flattening of the namespace into module files and the fork-based fresh process.",
}

QUERY_KINDS = ["plain", "ref", "partial", "force_local", "ctx", "unregistered"]


def base_program(declared=False):
    """f0 -> h (plain) -> G ; f0 -> f1 (memento, self-recursive) ; f2 referenced by f1 but defined late.
    declared: f0 also reaches a memento function f4 dynamically and declares it (dependencies=["f4"])."""
    lit = lambda v: {"e": "lit", "v": v}  # noqa: E731
    p = _base_program(lit)
    if declared:
        f0 = progs.find(p, "f0")
        # (f4: a memento function nothing else refers to; re-binding its name to a plain function registers nothing)
        f4 = {"k": "fn", "mod": "a", "name": "f4", "memento": True, "version": None, "cluster": None, "pdef": None, "kwdef": None,
              "base": lit(4), "body": {"e": "x"}}
        p["defs"].insert(p["defs"].index(f0), f4)
        f0["declared"] = ["f4"]
        f0["body"] = {"e": "add", "a": f0["body"], "b": {"e": "hidden", "f": "f4", "via": "globals"}}
    return p


def _base_program(lit):
    return {"pkg": "vpk", "modules": ["a"], "defs": [
        {"k": "var", "mod": "a", "name": "G0", "vtype": "list", "value": [1, 2]},
        # (G1 is also the default value of a parameter of the plain helper f3; it is only ever updated in place)
        {"k": "var", "mod": "a", "name": "G1", "vtype": "list", "value": [4]},
        {"k": "fn", "mod": "a", "name": "f3", "memento": False, "version": None, "cluster": None, "pdef": 2, "kwdef": None, "gdef": "G1",
         "base": lit(0), "body": {"e": "add", "a": {"e": "add", "a": {"e": "glob", "n": "G0"}, "b": {"e": "pk"}}, "b": {"e": "pg"}}},
        {"k": "fn", "mod": "a", "name": "f1", "memento": True, "version": None, "cluster": None, "pdef": None, "kwdef": None,
         "base": lit(1), "body": {"e": "add", "a": {"e": "call", "f": "f1"}, "b": {"e": "call", "f": "f2"}}},
        {"k": "fn", "mod": "a", "name": "f0", "memento": True, "version": None, "cluster": "c", "pdef": None, "kwdef": 3,
         "base": lit(2), "body": {"e": "add", "a": {"e": "call", "f": "f3"}, "b": {"e": "add", "a": {"e": "call", "f": "f1"}, "b": {"e": "inset", "x": {"e": "x"}, "s": ["a", "b"]}}}},
        {"k": "fn", "mod": "a", "name": "f2", "memento": True, "version": None, "cluster": None, "pdef": None, "kwdef": None,
         "base": lit(3), "body": {"e": "call", "f": "f0"}, "late": True},
    ]}


SMALL_EVENTS = [
    {"ev": "edit", "edit": {"kind": "lit", "site": 0, "delta": 1, "target": "f1"}},
    {"ev": "edit", "edit": {"kind": "lit", "site": 0, "delta": 1, "target": "f3"}},
    {"ev": "edit", "edit": {"kind": "pdef", "site": 0, "delta": 1}},
    {"ev": "edit", "edit": {"kind": "kwdef", "site": 0, "delta": 1}},
    {"ev": "edit", "edit": {"kind": "var", "site": 0, "delta": 1}},
    {"ev": "edit", "edit": {"kind": "varmut", "site": 0, "delta": 1}},
    {"ev": "define", "name": "f2"},
    {"ev": "swap", "name": "f1"},
    {"ev": "lockedit", "edit": {"kind": "var", "site": 0, "delta": 2}},
    {"ev": "recluster", "name": "f1"},
    {"ev": "unwrap", "name": "f1"},
    {"ev": "unwrap", "name": "f4"},
    {"ev": "edit", "edit": {"kind": "varmut", "site": 1, "delta": 1}},
]


def small_scope(max_len):
    for n in range(1, max_len + 1):
        for seq in itertools.product(range(len(SMALL_EVENTS)), repeat=n):
            for every, clone_first, declared in ((True, False, False), (False, False, False), (True, True, False), (False, True, False),
                                                 (True, False, True), (False, False, True)):
                p = base_program(declared)
                if sum(seq) % 2:
                    progs.find(p, "f2")["late"] = "placeholder"
                yield {"program": p, "events": [SMALL_EVENTS[i] for i in seq], "query_every": every, "clone_first": clone_first,
                       "clone_fn": "f0", "src": "small-scope"}


def _plan(case):
    """-> list of (program after the event, cells, lock flag sequence, label) per event; event 0 = initial import."""
    prog = case["program"]
    steps = [{"prog": prog, "cells": [], "lock": None, "label": "initial", "applied": True}]
    for i, ev in enumerate(case["events"]):
        cur = steps[-1]["prog"]
        kind = ev["ev"]
        if kind in ("edit", "lockedit"):
            p2, info = progs.apply_edit(cur, ev["edit"], "e%d" % (i + 1))
            if not info["applied"]:
                continue
            if not info.get("stmt") and any(f_.get("gdef") == info.get("target") for f_ in progs.fns(p2)):
                # re-binding a variable that is also a parameter's default leaves the default on the old object: the running
                # process then differs from any fresh import of the text (Python semantics, not a version-cache matter)
                continue
            if info.get("stmt") and progs.find(p2, info["target"]).get("late"):
                continue   # an in-place mutation of a variable that does not exist yet is not an event
            if any(dd["k"] == "alias" and dd["target"] in info["cells"] for dd in p2["defs"]):
                continue   # re-defining a function another name is bound to leaves two editions alive (no flat program)
            cells = []
            if info.get("stmt"):
                cells.append([info["target_mod"], info["stmt"]])
            for name in info["cells"]:
                d = progs.find(p2, name)
                d.pop("unwrapped", None)   # its definition is executed again: the saved object is obsolete
                if not d.get("late"):
                    cells.append([d["mod"], progs.render_def(p2, d)])
            if kind == "lockedit":
                steps.append({"prog": p2, "cells": cells, "lock": True, "label": "locked:" + info["kind"], "applied": True, "locked": True})
                steps.append({"prog": p2, "cells": [], "lock": False, "label": "unlock", "applied": True})
            else:
                steps.append({"prog": p2, "cells": cells, "lock": None, "label": "edit:" + info["kind"] + ":" + info.get("target_is", ""), "applied": True})
        elif kind == "define":
            import copy
            p2 = copy.deepcopy(cur)
            late = [d for d in p2["defs"] if d.get("late")]
            if not late:
                continue
            d = late[ev.get("idx", 0) % len(late)] if "name" not in ev else next((x for x in late if x["name"] == ev["name"]), None)
            if d is None:
                continue
            d.pop("late")
            steps.append({"prog": p2, "cells": [[d["mod"], progs.render_def(p2, d)]], "lock": None, "label": "define-late", "applied": True})
        elif kind == "recluster":
            import copy
            p2 = copy.deepcopy(cur)
            cands = [d for d in progs.fns(p2) if not d.get("late") and d["memento"] and d["name"] != case.get("clone_fn") and not d.get("rname")]
            if not cands:
                continue
            d = next((x for x in cands if x["name"] == ev.get("name")), None) or cands[ev.get("idx", 0) % len(cands)]
            d["cluster"] = None if d.get("cluster") else "c"
            d["base"] = {"e": "add", "a": d["base"], "b": {"e": "lit", "v": i + 1}}
            steps.append({"prog": p2, "cells": [[d["mod"], progs.render_def(p2, d)]], "lock": None, "label": "recluster", "applied": True})
        elif kind == "unwrap":
            # rebind the name of a memento function to its underlying plain function (and back, if it is already unwrapped):
            # no definition is executed, only an assignment
            import copy
            p2 = copy.deepcopy(cur)
            cands = [d for d in progs.fns(p2) if not d.get("late") and d["name"] != case.get("clone_fn") and (d["memento"] or d.get("unwrapped")) and not d.get("rname")]
            if not cands:
                continue
            d = next((x for x in cands if x["name"] == ev.get("name")), None) or cands[ev.get("idx", 0) % len(cands)]
            if d.get("unwrapped"):
                d["memento"], d["cluster"] = True, d.pop("unwrapped")["cluster"]
                cell = "%s = _verif_saved_%s\n" % (d["name"], d["name"])
                label = "rebind-to-saved-memento"
            else:
                d["unwrapped"] = {"cluster": d.get("cluster")}
                d["memento"], d["cluster"] = False, None
                cell = "_verif_saved_%s = %s\n%s = %s.fn\n" % (d["name"], d["name"], d["name"], d["name"])
                label = "rebind-to-plain-fn"
            steps.append({"prog": p2, "cells": [[d["mod"], cell]], "lock": None, "label": label, "applied": True})
        elif kind == "rebind-twin":
            # the name of a plain helper is re-bound (plain assignment) to the helper of identical text that lives in the
            # other module and reads that module's variable of the same name
            import copy
            p2 = copy.deepcopy(cur)
            h = next((dd for dd in p2["defs"] if dd["k"] == "fn" and dd["name"] == "h9" and not dd.get("late")), None)
            tw = next((dd for dd in p2["defs"] if dd["k"] == "fn" and dd["name"] == "h9tw" and not dd.get("late")), None)
            if h is None or tw is None:
                continue
            p2["defs"] = [dd for dd in p2["defs"] if dd is not h] + [{"k": "alias", "mod": h["mod"], "name": "h9", "target": "h9tw"}]
            al = p2["defs"][-1]
            steps.append({"prog": p2, "cells": [[al["mod"], progs.render_def(p2, al)]], "lock": None, "label": "rebind-to-twin-helper", "applied": True})
        elif kind == "swap":
            import copy
            p2 = copy.deepcopy(cur)
            cands = [d for d in progs.fns(p2) if not d.get("late") and d["name"] != "f0" and not d.get("rname")]
            if not cands:
                continue
            d = next((x for x in cands if x["name"] == ev.get("name")), None) or cands[ev.get("idx", 0) % len(cands)]
            d.pop("unwrapped", None)
            d["memento"] = not d["memento"]
            if not d["memento"]:
                d["version"] = None
                d["cluster"] = None
            steps.append({"prog": p2, "cells": [[d["mod"], progs.render_def(p2, d)]], "lock": None,
                          "label": "swap-to-" + ("memento" if d["memento"] else "plain"), "applied": True})
    return steps


def execute(case, scratch):
    out = core.Outcome()
    d = env.fresh_dir(scratch, "c13-")
    try:
        steps = _plan(case)
        p0 = case["program"]
        every = case.get("query_every", True)
        spec_steps = []
        for i, st in enumerate(steps):
            q = []
            if every or i == len(steps) - 1 or st.get("locked"):
                for f in progs.fns(st["prog"]):
                    if f["memento"] and not f.get("late") and f.get("version") is None:
                        q.append([f["mod"], f["name"], "plain"])
                        if f["name"] == case.get("clone_fn"):
                            for k in QUERY_KINDS[1:]:
                                q.append([f["mod"], f["name"], k])
                if case.get("clone_first"):
                    # the freshly created clones are asked before anything asked the function they are cloned from
                    cf = case.get("clone_fn")
                    rank = {"force_local": 0, "ctx": 1, "partial": 2, "unregistered": 3, "ref": 4, "plain": 5}
                    q.sort(key=lambda e: (0, rank[e[2]]) if e[1] == cf else (1, 0))
            spec_steps.append({"lock": st["lock"], "cells": st["cells"], "queries": q})
        live = proc.forkrun(progrun.run_events, {"init_cells": progs.render_cells(p0), "pkg": p0["pkg"], "modules": p0["modules"],
                                                 "store": os.path.join(d, "store"), "steps": spec_steps})
        fresh_cache = {}
        changed_between = False
        last_fresh = {}
        for i, (st, res) in enumerate(zip(steps, live)):
            if not res:
                continue
            key = core.canon(st["prog"])
            if key not in fresh_cache:
                q = [[f["mod"], f["name"], "plain"] for f in progs.fns(st["prog"]) if f["memento"] and not f.get("late") and f.get("version") is None]
                fresh_cache[key] = proc.forkrun(progrun.run_events, {
                    "init_cells": progs.render_cells(st["prog"]), "pkg": p0["pkg"], "modules": p0["modules"], "store": os.path.join(d, "fstore%d" % i),
                    "steps": [{"queries": q}]})[0]
            fresh = fresh_cache[key]
            for k, v in res.items():
                base = k.split("|")[0] + "|plain"
                want = fresh.get(base)
                kind = k.split("|")[1]
                if v is None:
                    continue
                if isinstance(v, str) and v.startswith("!"):
                    out.violation("after %s (step %d): version query %s raised %s" % (st["label"], i, k, v[1:]),
                                  symptom="query-raised", query=kind, locked=bool(st.get("locked")))
                    continue
                if st.get("locked"):
                    continue
                if last_fresh.get(base) not in (None, want):
                    changed_between = True
                if v != want:
                    out.violation("after %s (step %d of %s): %s = %s, a fresh process computes %s for the resulting program" % (
                        st["label"], i, [s["label"] for s in steps[1:]], k, v, want), symptom="version-incoherent", query=kind,
                        after=st["label"].split(":")[0] + (":" + st["label"].split(":")[1] if st["label"].startswith("edit:") else ""))
            last_fresh = dict(fresh)
            if out.violations:
                break
        out.nontrivial = changed_between
        out.labels = sorted({"ev:" + s["label"] for s in steps[1:]}) + ["src:" + case.get("src", "random"), "query-every" if every else "query-at-end"] + (["clones-asked-first"] if case.get("clone_first") else [])
        out.nt_key = [case["program"], case["events"], every, bool(case.get("clone_first"))]
        out.render = {"events": [s["label"] for s in steps[1:]], "query_every": every, "src": case.get("src", "random")}
        return out
    finally:
        env.rm(d)


def replay(case, ctx):
    return execute(case, ctx.scratch)


def strategy(thorough):
    from hypothesis import strategies as st
    ev = st.one_of(
        st.builds(lambda e: {"ev": "edit", "edit": e}, progs.edit_strategy()),
        st.builds(lambda e: {"ev": "edit", "edit": e}, progs.edit_strategy()),
        st.builds(lambda i: {"ev": "define", "idx": i}, st.integers(0, 3)),
        st.builds(lambda i: {"ev": "swap", "idx": i}, st.integers(0, 5)),
        st.builds(lambda i: {"ev": "recluster", "idx": i}, st.integers(0, 5)),
        st.builds(lambda i: {"ev": "unwrap", "idx": i}, st.integers(0, 5)),
        st.builds(lambda e: {"ev": "lockedit", "edit": dict(e, kind="var")}, progs.edit_strategy()),
        st.builds(lambda e: {"ev": "edit", "edit": dict(e, kind="varmut")}, progs.edit_strategy()),
        st.builds(lambda i: {"ev": "define", "idx": i}, st.integers(0, 3)),
        st.just({"ev": "rebind-twin"}),
    )

    @st.composite
    def case(draw):
        p = draw(progs.program_strategy(max_fns=6 if thorough else 5, allow_alias=False, allow_explicit=False, allow_tuplist=True, allow_dictset=True, allow_twins=True, allow_rename=True, allow_nested_refs=True, allow_gdef=True, allow_declared=True))
        # (dependencies declared by memento's qualified name only name memento functions: the events that turn a function
        # into a plain one, or move it to another cluster, would make the text invalid - dotted names only here)
        for dd in progs.fns(p):
            dd.pop("declared_q", None)
        # some variables start undefined too (a function in another module then refers to a missing module attribute)
        for dd in p["defs"]:
            if dd["k"] == "var" and draw(st.integers(0, 3)) == 0 and not any(f_.get("gdef") == dd["name"] for f_ in progs.fns(p)):
                dd["late"] = True   # (not a variable that is some parameter's default: that one must exist when the function is defined)
        # some functions start undefined ("late")
        for dd in progs.fns(p):
            if dd["name"] != "f0" and draw(st.integers(0, 3 if dd["memento"] else 2)) == 0 and \
                    not any(dd["name"] in (f_.get("declared") or []) for f_ in progs.fns(p)):   # (a declared dependency must exist when its declarer is defined)
                # an opaque placeholder leaves no hash rule behind, so only the registration of a memento
                # function can signal its replacement; plain helpers start undefined instead
                dd["late"] = draw(st.sampled_from([True, "placeholder"])) if dd["memento"] else True
        cands = [f["name"] for f in progs.fns(p) if f["memento"]]
        return {"program": p, "events": draw(st.lists(ev, min_size=1, max_size=10 if thorough else 6)),
                "query_every": draw(st.booleans()), "clone_first": draw(st.booleans()), "clone_fn": draw(st.sampled_from(cands)), "src": "random"}

    return case()


def run_shard(ctx):
    stats = core.Stats()
    thorough = ctx.tier == "thorough"
    ex = lambda c: execute(c, ctx.scratch)  # noqa: E731
    dl = (lambda frac: max((ctx.deadline - time.time()) * frac, 5) if ctx.deadline else None)
    complete = core.enum_search(small_scope(3 if thorough else 2), ex, stats, findings=ctx.findings, shard=ctx.shard,
                                nshards=ctx.nshards, deadline_s=dl(0.6))
    stats.extra["exhaustive_sequences"] = stats.evaluations
    stats.extra["small_scope_complete"] = bool(complete)
    core.hyp_search(strategy(thorough), ex, stats, max_examples=1500 if thorough else 90, seed=core.hash64(ctx.seed, ID, ctx.shard),
                    findings=ctx.findings, deadline_s=dl(1.0))
    return stats

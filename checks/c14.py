"""C14 - the static dependency closure is exact and calls outside it are refused."""
import itertools
import os
import time

from vlib import core, env, progs, progrun, proc

ID = "C14"
LEVEL = "exploration"
SHARDS = {"quick": 16, "thorough": 16}
RULE = (
    "Reference graphs: (a) exhaustive - every digraph (self-loops included) on N <= 2 (quick) / N <= 3 (thorough) nodes x every assignment of kinds "
    "{memento with automatic version, memento with explicit version, plain} (at least one automatic), each edge rendered as a bare-name call, plus for every graph one variant in which the edges of one node are hidden dynamic calls and one in which they sit in the argument list of a call inside an attribute chain; (b) random - Hypothesis programs of up to 8 functions in 1-2 modules "
    "with bare-name, module-attribute, alias and functools.wraps references, callees invoked through a force_local() clone, and hidden calls through globals()/sys.modules (also to explicitly-versioned functions and through clones). Oracle: the harness' own reachability over the generated graph. "
    "transitive_memento_fn_dependencies == memento nodes reachable from f (through any nodes) minus f; direct_... == memento nodes named in f's own body minus f; df() == pairs (memento m -> memento m' != m) "
    "with a path from m to m' through plain nodes only, for m = f or reachable from f. Enforcement: calling f with arguments 1 and 2 (directly, or - for half of the cases - the second one through two chained modifiers partial().force_local()), the outcome is UndeclaredDependencyError iff a simulation of the execution meets a "
    "call from an automatically-versioned memento frame to a memento function that is neither in that frame's closure nor the frame itself; otherwise the value equals the un-memoized run; the roots are then called with every hidden callee handed over in the context arguments (those calls are allowed) and once more without (refused again). "
    "A small enumerated family (memento -> chain of 1-3 plain helpers -> memento, every helper of the chain re-defined in the running process to call another memento function or to skip ahead) and, for random programs, one plain helper is additionally re-defined in the running process with a retargeted call edge (no memento registration) and the closures are asked again and compared with the model of the edited program. "
    "Non-trivial = graph with a cycle, a memento node reachable only through a plain node, or a hidden edge; distinct by graph."
    " Round 5: renamed definitions (builtin names, very long names)."
    " Round 6: a three-node family mixing a named and a dynamic edge on one function (every kind of the other two nodes, both orders, inner edge named or dynamic)."
)
ASSUMPTIONS = [
    "closures are compared for automatically-versioned functions only (an explicit version switches the function's own dependency analysis off by design); explicitly-versioned memento functions do appear as graph nodes and as callees of hidden calls, and the dependency-graph edge set of a function is not compared when an explicitly-versioned function lies beneath it",
    "self-pairs are not demanded in df() (the code never links a function to itself and the property does not ask for it)",
    "all functions live in one generated package - in its sub-modules and, for a third of the random programs, in its __init__.py (documented scope of dependency detection)",
    "each program is imported in a fresh forked process",
]
MANIFEST = {
    "level": "exploration",
    "technique": "bounded exhaustive enumeration of reference graphs and of in-process helper re-definitions + Hypothesis-generated programs, oracle = independent reachability computation and an execution simulation for the enforcement half (incl. functions handed over as arguments and callers invoked through chained modifiers)",
    "text": "All graphs up to N nodes (with kinds and hidden-edge variants) are enumerated and every reported dependency set / graph edge / refusal is compared with the harness' own graph computation; larger random programs add the other reference forms.",
    "note": "Trusts the harness' reachability and execution simulation (checks/c14.py).",
}


def graph_program(n, kinds, edges, hidden_node=None, attrchain_node=None, hidden_edges=()):
    defs = []
    for i in range(n):
        body = {"e": "x"}
        for (a, b) in edges:
            if a == i:
                call = {"e": "hidden", "f": "f%d" % b, "via": "globals"} if (hidden_node == i or (a, b) in hidden_edges) else {"e": "call", "f": "f%d" % b}
                if attrchain_node == i:
                    call["form"] = "attrchain"
                body = {"e": "add", "a": body, "b": call}
        defs.append({"k": "fn", "mod": "a", "name": "f%d" % i, "memento": kinds[i] in "me", "version": "v" if kinds[i] == "e" else None, "cluster": None,
                     "pdef": None, "kwdef": None, "base": {"e": "lit", "v": i + 1}, "body": body})
    return {"pkg": "vpk", "modules": ["a"], "defs": defs}


def exhaustive_cases(max_n):
    for n in range(1, max_n + 1):
        pairs = [(a, b) for a in range(n) for b in range(n)]
        # m = memento function with automatic version, e = memento function with explicit version, p = plain helper
        for kinds in itertools.product("mpe", repeat=n):
            if "m" not in kinds:
                continue
            for mask in range(1 << len(pairs)):
                es = [pairs[i] for i in range(len(pairs)) if mask >> i & 1]
                yield {"program": graph_program(n, kinds, es), "src": "exhaustive", "n": n}
                # one hidden variant per graph: the lowest node that has an outgoing edge
                srcs = sorted({a for a, _ in es})
                if srcs:
                    hn = srcs[mask % len(srcs)]
                    yield {"program": graph_program(n, kinds, es, hidden_node=hn), "src": "exhaustive-hidden", "n": n, "chained": bool(mask % 2)}
                    yield {"program": graph_program(n, kinds, es, attrchain_node=srcs[(mask + 1) % len(srcs)]), "src": "exhaustive-attrchain", "n": n}


def mixed_edge_cases():
    """
    three nodes, f0 with an automatic version: f0 names f1 and reaches f2 only dynamically, f1 names f2 - every kind of f1
    and f2, the dynamic call before or after the named one (whatever f1 did or recorded, f0's own dynamic call to a
    function outside its closure is refused; if f1 is a plain helper, f2 is inside the closure)
    """
    for k1 in "mpe":
        for k2 in "mpe":
            for es in ([(0, 1), (0, 2), (1, 2)], [(0, 2), (0, 1), (1, 2)]):
                for inner_dynamic in (False, True):   # f1 names f2, or reaches it dynamically too
                    yield {"program": graph_program(3, "m" + k1 + k2, es, hidden_edges=((0, 2), (1, 2)) if inner_dynamic else ((0, 2),)),
                           "src": "mixed-edges", "n": 3, "chained": False}


def evolution_cases():
    """
    f0 (memento) -> h1 -> ... -> hn (plain helpers) -> g (memento); g2 is another memento function nobody refers to.
    Helper hk is re-defined in the running process so that it calls g2 (or, if it is not the last one, skips to g)
    - for every chain length n <= 3, every k, and with the first edge of f0 being a bare call or an attribute-chain call.
    """
    call = lambda f, form=None: dict({"e": "call", "f": f}, **({"form": form} if form else {}))  # noqa: E731
    fn = lambda name, memento, body: {"k": "fn", "mod": "a", "name": name, "memento": memento, "version": None, "cluster": None,  # noqa: E731
                                      "pdef": None, "kwdef": None, "base": {"e": "lit", "v": 1}, "body": body}
    for n in (1, 2, 3):
        for k in range(1, n + 1):
            for to in ("g2", "g"):
                if to == "g" and k == n:
                    continue
                for form in (None, "attrchain"):
                    helpers = ["h%d" % i for i in range(1, n + 1)]
                    defs = [fn("g", True, {"e": "x"}), fn("g2", True, {"e": "x"})]
                    for i, h in enumerate(helpers):
                        nxt = helpers[i + 1] if i + 1 < n else "g"
                        defs.append(fn(h, False, {"e": "add", "a": {"e": "x"}, "b": call(nxt)}))
                    defs.append(fn("f0", True, {"e": "add", "a": {"e": "x"}, "b": call("h1", form)}))
                    yield {"program": {"pkg": "vpk", "modules": ["a"], "defs": defs}, "src": "evolution-chain",
                           "evolve": {"helper": "h%d" % k, "to": to}, "handover": False}


def _qn(prog, d):
    return "%s%s:%s" % ((d["cluster"] + "::") if d.get("cluster") else "", progs.modname(prog, d["mod"]), d["name"])


def _static_edges(prog, name):
    cs, _ = progs.edges(prog, name, include_hidden=False)
    return [progs.resolve_fn(prog, c)["name"] for c in cs]


def model(prog):
    fl = {d["name"]: d for d in progs.fns(prog)}
    succ = {n: _static_edges(prog, n) for n in fl}

    def reach(n, only_plain_intermediate=False):
        seen, out, stack = set(), set(), list(succ[n])
        while stack:
            t = stack.pop()
            if t in seen:
                continue
            seen.add(t)
            out.add(t)
            if only_plain_intermediate and fl[t]["memento"]:
                continue
            stack += succ[t]
        return out

    res = {}
    for n, d in fl.items():
        if not d["memento"]:
            continue
        r = reach(n)
        trans = {t for t in r if fl[t]["memento"] and t != n}
        direct = {t for t in succ[n] if fl[t]["memento"] and t != n}
        dfedges = set()
        for mnode in [n] + sorted(trans):
            for t in reach(mnode, only_plain_intermediate=True):
                if fl[t]["memento"] and t != mnode:
                    dfedges.add((mnode, t))
        res[n] = {"trans": trans, "direct": direct, "df": dfedges}
    return res, fl, succ


def simulate(prog, root, x, mdl, fl, passed=()):
    """'ude' if the execution of root(x) on an empty store meets a refused call, else 'ok'.
    `passed`: memento functions handed over in the (inherited) context arguments - always allowed."""
    memo = {}

    def run(name, x, frame):
        d = fl[name]
        if d["memento"]:
            key = (name, x)
            if key in memo:
                return memo[key]
            frame = name
        if x <= 0:
            r = "ok"
        else:
            r = "ok"
            calls = [e for e in progs.walk(d["body"]) if e["e"] in ("call", "hidden")]
            # evaluation order of the rendered expression: nested adds are left-assoc, calls were appended last-outermost
            order = []

            def collect(e):
                if e["e"] in ("add", "mul"):
                    collect(e["a"])
                    collect(e["b"])
                elif e["e"] in ("call", "hidden"):
                    order.append(e)
                else:
                    for k in ("x", "i"):
                        if isinstance(e.get(k), dict):
                            collect(e[k])
            collect(d["body"])
            for e in order:
                t = progs.resolve_fn(prog, e["f"])["name"]
                if fl[t]["memento"] and frame is not None and fl[frame].get("version") is None:
                    if t != frame and t not in mdl[frame]["trans"] and t not in passed:
                        r = "ude"
                        break
                if run(t, x - 1, frame) == "ude":
                    r = "ude"
                    break
        if d["memento"]:
            memo[(name, x)] = r
        return r

    return run(root, x, None)


def _compare_deps(out, prog, deps, when):
    mdl, fl, succ = model(prog)
    qn = {n: _qn(prog, fl[n]) for n in fl}
    for n, m_ in mdl.items():
        if fl[n].get("version") is not None:
            # an explicit version switches the function's own dependency analysis off by design
            continue
        key = "%s.%s" % (fl[n]["mod"], n)
        g = deps.get(key)
        if g is None or "error" in g:
            out.violation("dependencies() of %s failed%s: %s" % (n, when, g), symptom="dependencies-raised", evolved=bool(when))
            continue
        want_t = sorted(qn[t] for t in m_["trans"])
        want_d = sorted(qn[t] for t in m_["direct"])
        want_df = sorted([qn[a], qn[b]] for a, b in m_["df"])
        if g["trans"] != want_t:
            out.violation("transitive dependencies of %s%s: reported %r, reachable memento functions are %r" % (n, when, g["trans"], want_t),
                          symptom="transitive-differs", missing=bool(set(want_t) - set(g["trans"])), extra=bool(set(g["trans"]) - set(want_t)), evolved=bool(when))
        if g["direct"] != want_d:
            out.violation("direct dependencies of %s%s: reported %r, named in its body are %r" % (n, when, g["direct"], want_d),
                          symptom="direct-differs", missing=bool(set(want_d) - set(g["direct"])), extra=bool(set(g["direct"]) - set(want_d)), evolved=bool(when))
        gdf = sorted(e for e in g["df"] if e[0] != e[1])
        if any(fl[t].get("version") is not None for t in m_["trans"]):
            # the graph below an explicitly-versioned function is not demanded (its analysis is off by design)
            out.labels.append("graph-not-compared-explicit-below")
        elif gdf != want_df:
            out.violation("dependency graph of %s%s: edges %r, expected %r" % (n, when, gdf, want_df), symptom="graph-differs", evolved=bool(when))


def _evolution(case):
    """(program after re-defining one plain helper with a retargeted call edge, cells, info) or (None, [], {})"""
    ev = case.get("evolve")
    prog = case["program"]
    plain = [f["name"] for f in progs.fns(prog) if not f["memento"]]
    if not ev or not plain:
        return None, [], {}
    # aliases/wrappers of the helper would keep the old object alive
    plain = [n for n in plain if not any(d["k"] in ("alias", "wrapper") and d["target"] == n for d in prog["defs"])]
    if not plain:
        return None, [], {}
    # prefer a helper that another plain helper refers to (two or more levels below any memento function)
    deep = [n for n in plain if any(n in [progs.resolve_fn(prog, c)["name"] for c in progs.edges(prog, o["name"], include_hidden=False)[0]]
                                    for o in progs.fns(prog) if not o["memento"] and o["name"] != n)]
    if deep and ev.get("which", 0) % 4 != 3:
        plain = deep
    target = plain[ev.get("which", 0) % len(plain)]
    if ev.get("helper"):
        # directed form: re-define exactly this helper so that it calls `to` instead
        target = ev["helper"]
        p2 = info = None
        for idx in range(len(progs.callables(prog))):
            p2, info = progs.apply_edit(prog, {"kind": "retarget", "site": 0, "idx": idx, "target": target}, "v")
            if info["applied"] and info.get("new_ref") == ev["to"]:
                break
        else:
            return None, [], {}
    else:
        p2, info = progs.apply_edit(prog, dict(ev, kind="retarget", target=target), "v")
    if not info["applied"] or info.get("bumped"):
        return None, [], {}
    dd = progs.find(p2, target)
    return p2, [[dd["mod"], progs.render_def(p2, dd)]], info


def execute(case, scratch):
    out = core.Outcome()
    d = env.fresh_dir(scratch, "c14-")
    try:
        prog = case["program"]
        p2, evolve_cells, evolve_info = _evolution(case)
        passing = sorted({(progs.resolve_fn(prog, e["f"])["mod"], progs.resolve_fn(prog, e["f"])["name"]) for f in progs.fns(prog)
                          for e in progs.exprs_of(f) if e["e"] == "hidden" and progs.resolve_fn(prog, e["f"])["memento"]}) if case.get("handover", True) else []
        progrun.write_files(d, progs.render_files(prog))
        mem_fns = [[f["mod"], f["name"]] for f in progs.fns(prog) if f["memento"]]
        roots = [[f["mod"], f["name"]] for f in progs.fns(prog) if f["memento"] and f.get("version") is None]
        spec = {"pkgroot": d, "pkg": prog["pkg"], "modules": prog["modules"], "store": os.path.join(d, "store"),
                "fns": mem_fns, "roots": roots, "args": [1, 2]}
        got = proc.forkrun(progrun.run_deps, dict(spec, identity=False, chained=bool(case.get("chained")), passing=[list(x) for x in passing], pass_arg=1, after_arg=3,
                                                  evolve_cells=evolve_cells))
        ref = proc.forkrun(progrun.run_deps, dict(spec, identity=True, args=[1, 2, 3]), env={"VERIF_RT_IDENTITY": "1"})
        mdl, fl, succ = model(prog)
        qn = {n: _qn(prog, fl[n]) for n in fl}
        _compare_deps(out, prog, got["deps"], "")
        if p2 is not None and "deps2" in got:
            _compare_deps(out, p2, got["deps2"], " after re-defining plain helper %s in the running process" % evolve_info.get("target"))
        hidden_exec = False
        # functions handed over as (context) arguments may be called; afterwards the refusal is back
        if passing and not out.violations:
            for mname, name in roots:
                key = "%s.%s" % (mname, name)
                r1 = ref["results"][key]
                for which, arg, passed_set in (("passed", 1, {t for _, t in passing}), ("after", 3, set())):
                    m1 = got[which][key]
                    sim = simulate(prog, name, arg, mdl, fl, passed=passed_set)
                    rr = r1[{1: 0, 2: 1, 3: 2}[arg]]
                    label = "%s(%d)%s" % (name, arg, " with %s handed over in the context arguments" % sorted(passed_set) if passed_set else " (no functions handed over, after a call that had them)")
                    if sim == "ude":
                        hidden_exec = True
                        if m1.get("exc") != "UndeclaredDependencyError":
                            out.violation("%s makes a call outside its closure (per simulation) but the outcome was %r" % (label, m1),
                                          symptom="undeclared-call-not-refused", phase=which)
                    elif m1.get("exc") == "UndeclaredDependencyError":
                        out.violation("%s was refused although every call stays inside the closure or targets a handed-over function: %s" % (label, m1.get("msg")),
                                      symptom="declared-call-refused", phase=which)
                    elif "exc" not in rr and m1 != rr:
                        out.violation("%s gave %r, un-memoized run gives %r" % (label, m1, rr), symptom="wrong-value", phase=which)
            out.labels.append("functions-handed-over")
        for mname, name in roots:
            key = "%s.%s" % (mname, name)
            for ai, x in enumerate([1, 2]):
                sim = simulate(prog, name, x, mdl, fl)
                m1 = got["results"][key][ai]
                r1 = ref["results"][key][ai]
                if sim == "ude":
                    hidden_exec = True
                    if m1.get("exc") != "UndeclaredDependencyError":
                        out.violation("%s(%d) makes a call outside its closure (per simulation) but the outcome was %r" % (name, x, m1),
                                      symptom="undeclared-call-not-refused")
                else:
                    if m1.get("exc") == "UndeclaredDependencyError":
                        out.violation("%s(%d) was refused with UndeclaredDependencyError although every call stays inside the closure: %s" % (
                            name, x, m1.get("msg")), symptom="declared-call-refused")
                    elif "exc" in r1:
                        pass
                    elif m1 != r1:
                        out.violation("%s(%d) gave %r, un-memoized run gives %r" % (name, x, m1, r1), symptom="wrong-value")
        feats = progs.features(prog)
        cyc = any(n in _reach_all(succ, n) for n in succ)
        via_plain = any((m_["trans"] - m_["direct"]) for m_ in mdl.values())
        out.nontrivial = cyc or via_plain or "hidden" in feats
        out.labels = sorted(set(out.labels)) + ["src:" + case.get("src", "random")] + (["cycle"] if cyc else []) + (["memento-via-plain-or-memento"] if via_plain else []) + \
            (["hidden-edge"] if "hidden" in feats else []) + (["refusal-expected"] if hidden_exec else []) + \
            ["feat:" + f for f in feats if f in ("declared-dependency", "alias-or-wrapper", "two-modules", "explicit-version", "hidden-to-explicit", "hidden-via-clone", "call-via-clone", "package-init-module")] + \
            (["evolved-in-process"] if p2 is not None else []) + (["roots-through-chained-modifiers"] if case.get("chained") else [])
        out.nt_key = prog
        out.render = {"src": case.get("src"), "files": {k: v[v.index("return w") + 10:] for k, v in progs.render_files(prog).items() if v}}
        return out
    finally:
        env.rm(d)


def _reach_all(succ, n):
    seen, stack = set(), list(succ[n])
    while stack:
        t = stack.pop()
        if t not in seen:
            seen.add(t)
            stack += succ[t]
    return seen


def replay(case, ctx):
    return execute(case, ctx.scratch)


def strategy(thorough):
    from hypothesis import strategies as st
    evolve = st.integers(0, 3).flatmap(lambda i: st.none() if i == 0 else st.builds(lambda e, w: dict(e, which=w), progs.edit_strategy(), st.integers(0, 7)))
    return st.builds(lambda p, ev, ch: {"program": p, "src": "random", "evolve": ev, "chained": ch},
                     progs.program_strategy(max_fns=8 if thorough else 6, allow_explicit=True, allow_cluster=True, allow_init=True, allow_declared=True, allow_rename=True, allow_nested_refs=True), evolve, st.booleans())


def run_shard(ctx):
    stats = core.Stats()
    thorough = ctx.tier == "thorough"
    ex = lambda c: execute(c, ctx.scratch)  # noqa: E731
    dl = (lambda frac: max((ctx.deadline - time.time()) * frac, 5) if ctx.deadline else None)
    complete = core.enum_search(itertools.chain(evolution_cases(), mixed_edge_cases(), exhaustive_cases(3 if thorough else 2)), ex, stats, findings=ctx.findings, shard=ctx.shard,
                                nshards=ctx.nshards, deadline_s=dl(0.7))
    stats.extra["exhaustive_graphs"] = stats.evaluations
    stats.extra["exhaustive_complete"] = bool(complete)
    core.hyp_search(strategy(thorough), ex, stats, max_examples=2000 if thorough else 70, seed=core.hash64(ctx.seed, ID, ctx.shard),
                    findings=ctx.findings, deadline_s=dl(1.0))
    return stats

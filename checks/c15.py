"""C15 - batch evaluation equals element-wise evaluation, in order."""
import os
import time

import twosigma.memento as m
from twosigma.memento.exception import MementoException

from vlib import core, env, rt, tfuncs, values
from vlib.excs import lib_exception_signature

ID = "C15"
LEVEL = "exploration"
SHARDS = {"quick": 16, "thorough": 16}
RULE = (
    "Hypothesis draws a batch of 0-8 elements over a small key alphabet (so duplicates are frequent); each key is mapped by a side table to a value, "
    "to an exception raised by the body (builtin / custom / not rebuildable) or to an unsupported return type (failure outside the body); a subset is memoized beforehand; "
    "the batch is evaluated through call_batch (raise_first_exception true/false; full kwargs or a positional/keyword partial prefix) or map_over_range (list, range-like, generator, iterator) "
    "on filesystem, filesystem+cache and memory backends, with or without context arguments on the function (attached before or after the partial application), and - with a cache - optionally after reopening the store and reading some of the memoized elements individually (a mix of cached and disk-only mementos). Oracle: a twin store on which the same elements are evaluated one by one. Position by position equal values, "
    "exceptions of the same class with the original message; raise_first_exception raises the first failing slot's exception; every distinct memoizable element's body ran at most once "
    "(zero times if memoized beforehand); the final store (set of (function, arg hash), result types, stored values / exception records) equals the twin's. "
    "Non-trivial = batch with a duplicate or a failure and a partly memoized subset; distinct by (element kinds sequence, subset, mode)."
    " Race family (round 5): call_batch([memoized, new]) in one thread while another thread forgets the memoized element, every one-preemption schedule (every 3rd yield point in quick) under C09's deterministic scheduler; oracle: nobody raises or hangs, the batch returns both values, a later batch returns them again."
    " Round 6: individual calls optionally made through the batch's own partial prefix with the element given positionally; after the comparison every call is forgotten at once while the first batch's results are held, and a second batch must run every distinct memoizable element exactly once and leave the same store; arrays larger than the memory cache among the elements."
)
ASSUMPTIONS = [
    "local runner (the only runner in the repository that executes)",
    "elements whose result cannot be memoized at all (unsupported return type) are exempt from the runs-at-most-once rule",
]
MANIFEST = {
    "level": "exploration",
    "technique": "property-based testing with Hypothesis: differential between batch evaluation and element-wise evaluation on a twin store, plus execution-trace and final-store comparison; plus exhaustive one-preemption schedules of batch-versus-forget under a deterministic scheduler",
    "text": "Every generated batch is evaluated both as a batch and element by element on separate stores; slot values, raised exceptions, execution counts and final store contents are compared.",
    "note": "Trusts the twin (element-wise) evaluation as reference and the side-channel execution counter.",
}

P = 7


def _table(case):
    rt.TABLE.clear()
    for k, kind in case["elements"].items():
        k = int(k)
        if kind["kind"] == "value":
            rt.TABLE[("bat", k)] = (lambda d: (lambda: values.build(d)))(kind["v"])
        elif kind["kind"] == "exc":
            rt.TABLE[("bat", k)] = (lambda e, msg: (lambda: tfuncs.raise_kind(e, msg)))(kind["exc"], kind["msg"])
        else:  # unsupported return type
            rt.TABLE[("bat", k)] = lambda: (1, 2)


def _mk(case, d, name):
    kind = {"fs": "fs", "fsc": "fs", "mem": "memory"}[case["backend"]]
    st = env.make_backend(kind, os.path.join(d, name), cache_mb=0.01 if case["backend"] == "fsc" else None)
    env.set_env(d, {"c": st})
    return st


def _outcome_of(fn_call):
    try:
        return ("ok", fn_call())
    except Exception as e:
        return ("exc", e)


def _same_exc(a, b):
    if type(a) is not type(b):
        return False
    head = lambda e: str(e.args[0] if e.args else "").split(". Original stack trace")[0]  # noqa: E731
    # (a replayed KeyError carries the repr of the original message: str(KeyError(m)) is repr(m))
    return head(a) == head(b) or head(a) == repr(head(b)) or repr(head(a)) == head(b)


def _store_view(st):
    ref = tfuncs.bat.fn_reference()   # (context arguments are part of the arg hash, not of the function reference)
    view = {}
    for mem in st.list_mementos(ref) or []:
        rwa = mem.invocation_metadata.fn_reference_with_args
        rtype = mem.invocation_metadata.result_type.name
        val = st.read_result(mem)
        if isinstance(val, MementoException):
            val = ("exc", val.exception_name, val.message)
        view[rwa.arg_hash] = (rtype, val)
    return view


RACE_SCN = {"store": "warm-first", "shape": "batch-forget", "backend": "fs", "threads": 2}
RACE_WHAT = 'call_batch([memoized, new]) while another thread forgets the memoized element'


def execute(case, scratch):
    if case.get("kind") == "race":
        from checks import c09
        return c09.execute_race(case, scratch, RACE_WHAT)
    out = core.Outcome()
    d = env.fresh_dir(scratch, "c15-")
    try:
        _table(case)
        batch = case["batch"]
        distinct = list(dict.fromkeys(batch))
        pre = [k for k in case["pre"]]
        # every call of the case - individual or batch - is made under the same context arguments (or none)
        ctx_args = case.get("ctx")
        base_fn = tfuncs.bat if ctx_args is None else tfuncs.bat.with_context_args(dict(ctx_args))
        # an individual call is made with all arguments, or (indiv_via_prefix) through the same partial prefix as the batch
        # with the element given positionally: one and the same call either way
        via = case["mode"].get("prefix") if case.get("indiv_via_prefix") else "none"

        def indiv(k):
            if via == "pos":
                return base_fn.partial(P)(k)
            if via == "kw":
                return base_fn.partial(p=P)(k)
            return base_fn(P, k)
        # ---- twin: element-wise
        twin = _mk(case, d, "twin")
        rt.take()
        single = {}   # outcome of the first individual call (computes)
        again = {}    # outcome of a later individual call (served from the store when memoizable)
        for k in pre + distinct:
            if k not in single:
                single[k] = _outcome_of(lambda: indiv(k))
                again[k] = _outcome_of(lambda: indiv(k))
        rt.take()

        def expected(i):
            k = batch[i]
            return again[k] if (k in pre or k in batch[:i]) else single[k]
        twin_view = _store_view(twin)
        # ---- batch store
        st = _mk(case, d, "batch")
        for k in pre:
            _outcome_of(lambda: indiv(k))
        if case.get("warm") is not None:
            # a new backend object on the same store (cold memory cache), then some of the memoized elements are read
            # individually: the batch meets a mix of cached and disk-only mementos
            st = _mk(case, d, "batch")
            for k in case["warm"]:
                if k in pre:
                    _outcome_of(lambda: indiv(k))
        rt.take()
        mode = case["mode"]
        fn = base_fn if not case.get("ctx_last") else tfuncs.bat
        try:
            if mode["api"] == "call_batch":
                if mode["prefix"] == "none":
                    f, kw = fn, [{"p": P, "k": k} for k in batch]
                elif mode["prefix"] == "pos":
                    f, kw = fn.partial(P), [{"k": k} for k in batch]
                else:
                    f, kw = fn.partial(p=P), [{"k": k} for k in batch]
                if case.get("ctx_last") and ctx_args is not None:
                    f = f.with_context_args(dict(ctx_args))     # context attached after the partial application
                got = _outcome_of(lambda: f.call_batch(kw, raise_first_exception=mode["raise_first"]))
            else:
                it = {"list": lambda: list(batch), "tuple": lambda: tuple(batch), "gen": lambda: (x for x in batch),
                      "iter": lambda: iter(list(batch))}[mode["iterable"]]()
                f = fn.partial(P) if mode["prefix"] == "pos" else fn.partial(p=P)
                if case.get("ctx_last") and ctx_args is not None:
                    f = f.with_context_args(dict(ctx_args))
                got = _outcome_of(lambda: f.map_over_range(k=it))
        except Exception as e:
            raise
        runs = [r[1]["k"] for r in rt.take() if r[0] == "bat"]
        failing = [k for k in batch if single[k][0] == "exc"]
        raise_first = mode["api"] == "map_over_range" or mode["raise_first"]
        if raise_first and failing:
            want = expected(batch.index(failing[0]))[1]
            if got[0] != "exc":
                out.violation("batch with failing element %r did not raise (raise_first_exception)" % failing[0], symptom="not-raised")
            elif not _same_exc(got[1], want):
                out.violation("batch raised %r, the first failing slot raises %r" % (got[1], want), symptom="wrong-exception-raised")
        elif got[0] == "exc":
            sig = lib_exception_signature(got[1]) or {}
            out.violation("batch evaluation raised %r although no exception was requested to be raised" % (got[1],),
                          symptom="batch-raised", exc=type(got[1]).__name__)
        else:
            res = got[1]
            if mode["api"] == "map_over_range":
                want = {k: single[k][1] for k in batch}
                if not isinstance(res, dict) or set(res) != set(want) or not all(values.typed_equal(res[k], want[k]) for k in want):
                    out.violation("map_over_range(%s) returned %r, element-wise evaluation gives %r" % (mode["iterable"], res, want),
                                  symptom="map-result-differs", iterable=mode["iterable"])
            else:
                if not isinstance(res, list) or len(res) != len(batch):
                    out.violation("call_batch returned %d results for %d elements" % (len(res) if isinstance(res, list) else -1, len(batch)),
                                  symptom="wrong-length")
                else:
                    for i, k in enumerate(batch):
                        kind, want = expected(i)
                        if kind == "exc":
                            if not isinstance(res[i], Exception) or not _same_exc(res[i], want):
                                out.violation("slot %d (element %r): %r, individual call raises %r" % (i, k, res[i], want), symptom="slot-differs", kind="exc")
                        elif isinstance(res[i], Exception) or not values.typed_equal(res[i], want):
                            out.violation("slot %d (element %r): %r, individual call returns %r" % (i, k, res[i], want), symptom="slot-differs", kind="value")
        # every element is evaluated unless the batch raised early? No: the whole batch is evaluated, then the first exception raised.
        for k in distinct:
            memoizable = case["elements"][str(k)]["kind"] != "unsupported" and not (
                case["elements"][str(k)]["kind"] == "exc" and case["elements"][str(k)]["exc"] == "NotMemoized")
            n = runs.count(k)
            if k in pre and memoizable and n:
                out.violation("element %r was memoized beforehand but its body ran %d times" % (k, n), symptom="ran-although-memoized")
            elif memoizable and n > 1:
                out.violation("element %r ran %d times in one batch" % (k, n), symptom="ran-more-than-once")
        view = _store_view(st)
        if set(view) != set(twin_view):
            out.violation("store after the batch holds %d calls, after element-wise evaluation %d (missing %d, extra %d)" % (
                len(view), len(twin_view), len(set(twin_view) - set(view)), len(set(view) - set(twin_view))), symptom="store-differs")
        else:
            for h in view:
                a, b = view[h], twin_view[h]
                if a[0] != b[0] or not values.typed_equal(a[1] if not isinstance(a[1], tuple) else list(a[1][:2]),
                                                          b[1] if not isinstance(b[1], tuple) else list(b[1][:2])):
                    out.violation("stored record for %s differs: %r vs %r" % (h[:8], a, b), symptom="store-differs")
        # second batch after every call of the function was forgotten at once, while the first batch's results are still
        # held by the caller: every distinct element runs again exactly once and the store ends up as before
        if not out.violations and mode["api"] == "call_batch" and got[0] == "ok":
            held = got
            tfuncs.bat.forget_all()
            rt.take()
            got2 = _outcome_of(lambda: f.call_batch(kw, raise_first_exception=False))
            runs2 = [r[1]["k"] for r in rt.take() if r[0] == "bat"]
            if got2[0] != "ok" or not isinstance(got2[1], list) or len(got2[1]) != len(batch):
                out.violation("the batch evaluated again after forget_all() gave %r" % (got2,), symptom="batch-after-forget-all-differs")
            else:
                for k in distinct:
                    memoizable = case["elements"][str(k)]["kind"] != "unsupported" and not (
                        case["elements"][str(k)]["kind"] == "exc" and case["elements"][str(k)]["exc"] == "NotMemoized")
                    if memoizable and runs2.count(k) != 1:
                        out.violation("after forget_all() element %r ran %d times in the batch (expected once: nothing is memoized any more)" % (k, runs2.count(k)),
                                      symptom="runs-after-forget-all", runs=min(runs2.count(k), 2))
                        break
                for i, k in enumerate(batch):
                    a, b = held[1][i], got2[1][i]
                    if isinstance(a, Exception) or isinstance(b, Exception):
                        # a: possibly the replay of a record (a MementoException wrapper when the class cannot be rebuilt),
                        # b: raised by the body just now - the same failure when b's class name and message show in a
                        same = isinstance(a, Exception) and isinstance(b, Exception) and (
                            _same_exc(a, b) or (isinstance(a, MementoException) and type(b).__name__ in str(a)
                                                and (str(b.args[0] if b.args else "") in str(a))))
                    else:
                        same = values.typed_equal(a, b)
                    if not same:
                        out.violation("slot %d (element %r) after forget_all(): %r, before: %r" % (i, k, b, a), symptom="batch-after-forget-all-differs")
                        break
                view2 = _store_view(st)
                n_memo = len([k for k in distinct if case["elements"][str(k)]["kind"] != "unsupported" and not (
                    case["elements"][str(k)]["kind"] == "exc" and case["elements"][str(k)]["exc"] == "NotMemoized")])
                if not out.violations and (len(view2) != n_memo or not set(view2) <= set(twin_view)):
                    out.violation("store after forget_all() and a second batch holds %d calls (%d of them unknown to the element-wise store); the batch has %d distinct memoizable elements" % (
                        len(view2), len(set(view2) - set(twin_view)), n_memo), symptom="store-differs", after_forget_all=True)
            del held
        dup = len(distinct) < len(batch)
        out.nontrivial = (dup or bool(failing)) and bool(pre) and len(set(pre) & set(distinct)) < len(distinct)
        out.labels = ["api:" + mode["api"], "backend:" + case["backend"]] + (["dup"] if dup else []) + (["failing"] if failing else []) + \
            (["pre"] if pre else []) + (["context-args"] if ctx_args else []) + (["cold-cache-partly-warmed"] if case.get("warm") is not None else []) + (["empty"] if not batch else []) + (["iter:" + mode["iterable"]] if mode["api"] == "map_over_range" else [])
        out.nt_key = [[case["elements"][str(k)]["kind"] for k in batch], [batch.index(k) for k in batch], sorted(pre), mode, case["backend"], bool(ctx_args), case.get("warm")]
        return out
    except Exception as e:
        sig = lib_exception_signature(e)
        if sig is None:
            raise
        out.violation("unexpected %r" % (e,), symptom="exception", **sig)
        return out
    finally:
        rt.TABLE.clear()
        env.rm(d)


def replay(case, ctx):
    return execute(case, ctx.scratch)


def strategy():
    from hypothesis import strategies as st
    S = values.strategies()
    msg = st.text(alphabet="abcdefg XYZ012.,-é\udce9", max_size=10)
    elem = st.one_of(
        S.scalar.map(lambda v: {"kind": "value", "v": v}),
        st.integers(0, 50).map(lambda i: {"kind": "value", "v": {"t": "int", "v": str(i)}}),
        st.builds(lambda e, mm: {"kind": "exc", "exc": e, "msg": mm},
                  st.sampled_from(["ValueError", "KeyError", "CustomErr", "TwoArgErr", "NotMemoized"]), msg),
        st.just({"kind": "unsupported"}),
        # weak-referenceable values, small and larger than the whole memory cache (10 KB)
        st.sampled_from([{"kind": "value", "v": {"t": "nd", "dtype": "int8", "n": 20000}}, {"kind": "value", "v": {"t": "nd", "dtype": "int64", "v": [1, 2, 3]}}]),
    )

    @st.composite
    def case(draw):
        nkeys = draw(st.integers(1, 5))
        keys = list(range(nkeys))
        elements = {str(k): draw(elem) if draw(st.integers(0, 2)) == 0 else {"kind": "value", "v": {"t": "int", "v": str(k * 10)}} for k in keys}
        api = draw(st.sampled_from(["call_batch", "call_batch", "map_over_range"]))
        if api == "map_over_range":
            # a mapping from parameter value to result needs distinct, hashable values
            batch = draw(st.lists(st.sampled_from(keys), min_size=draw(st.sampled_from([0, 1, 2, 3])) if nkeys >= 3 else 0, max_size=8, unique=True))
            mode = {"api": api, "prefix": draw(st.sampled_from(["pos", "kw"])),
                    "iterable": draw(st.sampled_from(["list", "tuple", "gen", "iter"]))}
        else:
            size = draw(st.sampled_from([0, 1, 2, 3, 3, 4, 5, 6, 8]))
            batch = draw(st.lists(st.sampled_from(keys), min_size=size, max_size=size))
            mode = {"api": api, "prefix": draw(st.sampled_from(["none", "pos", "kw"])), "raise_first": draw(st.booleans())}
        pre = draw(st.lists(st.sampled_from(keys), max_size=nkeys, unique=True))
        backend = draw(st.sampled_from(["fs", "fsc", "fsc", "mem"]))
        ctx = draw(st.sampled_from([None, None, {"tenant": "a"}, {"tenant": "b", "asof": 3}]))
        warm = draw(st.lists(st.sampled_from(keys), max_size=nkeys, unique=True)) if (backend == "fsc" and draw(st.booleans())) else None
        return {"elements": elements, "batch": batch, "pre": sorted(pre), "mode": mode, "backend": backend,
                "ctx": ctx, "ctx_last": draw(st.booleans()), "warm": warm, "indiv_via_prefix": draw(st.booleans())}

    return case()


def run_shard(ctx):
    stats = core.Stats()
    # race family: every one-preemption interleaving (every 3rd yield point in quick) under C09's deterministic scheduler
    from checks import c09
    core.enum_search(c09.race_family(RACE_SCN, ctx.scratch, 1 if ctx.tier == "thorough" else 3), lambda c: execute(c, ctx.scratch), stats,
                     findings=ctx.findings, shard=ctx.shard, nshards=ctx.nshards,
                     deadline_s=max((ctx.deadline - time.time()) * 0.35, 5) if ctx.deadline else None)
    n = 30000 if ctx.tier == "thorough" else 600
    core.hyp_search(strategy(), lambda c: execute(c, ctx.scratch), stats, max_examples=n,
                    seed=core.hash64(ctx.seed, ID, ctx.shard), findings=ctx.findings,
                    deadline_s=(ctx.deadline - time.time()) if ctx.deadline else None)
    return stats

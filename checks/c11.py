"""C11 - the JSON metadata codec round-trips and keeps its cross-language wire format."""
import datetime
import json
import re
import time

from vlib import core, env, argspec, afuncs, values
from vlib.excs import lib_exception_signature

ID = "C11"
LEVEL = "exploration"
SHARDS = {"quick": 16, "thorough": 16}
RULE = (
    "Hypothesis builds Memento objects: aware/naive time, function reference from a harness alphabet (named/default cluster, chained partials) or an external reference to a function that cannot be resolved in this process (with parameter names, positional/keyword/partial arguments), "
    "args/kwargs/context args from the supported argument domain (NaN, +-inf, -0.0, big ints, non-ASCII, dates/datetimes incl. years < 1000 and zones, "
    "nested lists/dicts, nested function references with partial args), 0-5 invocations, 0-3 resource handles of arbitrary strings, dependency sets, "
    "runtime 0..1e6 s at microsecond resolution, every ResultType, runner dicts, correlation ids, content keys with arbitrary printable keys incl. '#' and "
    "uuid-like or empty versions (or None). Oracle: decode(json.loads(json.dumps(encode(m)))) is field-wise equivalent (same instant and offset, typed-equal "
    "arguments, equal references/handles/sets, runtime equal to the microsecond, same result type/runner/correlation id/content key); the recomputed arg_hash "
    "equals the original and the independent spec hash; the emitted document survives json.dumps, has exactly the fixed field names, and every argument is a "
    "{type[, value]} node from the known vocabulary with a value of the right JSON shape. Non-trivial = nested function reference with partials, zoned datetime, "
    "non-finite float, '#' in the content key, or >= 2 invocations; distinct by structural shape."
    " Round 5: dependency sets may hold several versions of one function (references that do not resolve here); arguments may be functions that cannot be resolved here (plain, partially applied, inside a list); the arguments held by each reference object are compared with the arguments given (encoded by the independent specification, so that a lossy normalisation in the constructor shows); every memento is also written through the metadata path of a filesystem store and read back by a new backend object."
    " Round 6: resource urls with percent escapes (also escaped escapes); one case in five is also decoded in a forked process that has the referenced functions on its path but has not imported their module."
)
ASSUMPTIONS = [
    "Python's NaN/Infinity literals are tolerated as plain JSON (the written hashing specification says floats get no special encoding)",
    "the wire vocabulary (field names, type tags, ResultType names) is the one the encoder emits at the pinned commit, hard-coded in the check",
    "datetime offsets are whole minutes",
]
MANIFEST = {
    "level": "exploration",
    "technique": "property-based testing with Hypothesis: round-trip oracle through real JSON text, hash-preservation differential against an independent spec hash, hand-written schema validator; the same mementos through the metadata files of a real store",
    "text": "Generated mementos are pushed through encode -> JSON text -> decode and compared field by field; the emitted document is validated against a schema written from the encoder's documented shape.",
    "note": "Trusts vlib/argspec.py for canonical comparison and the hard-coded wire vocabulary.",
}

RESULT_TYPES = ["exception", "null", "boolean", "string", "binary", "number", "date", "timestamp", "list_result",
                "dictionary", "array_boolean", "array_int8", "array_int16", "array_int32", "array_int64",
                "array_float32", "array_float64", "index", "series", "data_frame", "partition"]
ARG_TYPES = {"null", "boolean", "string", "number", "date", "timestamp", "list_result", "dictionary",
             "twosigma.memento.FunctionReference"}
DATE_RE = re.compile(r"^\d{4}-\d\d-\d\d$")
TS_RE = re.compile(r"^\d{4}-\d\d-\d\dT\d\d:\d\d:\d\d(\.\d{6})?(Z|[+-]\d\d:\d\d(:\d\d)?)?$")


def _build_rwa(d):
    from twosigma.memento.reference import FunctionReferenceWithArguments
    if d["fn"]["name"] == "ext":
        # a function that cannot be resolved in this process (another language / a version that is gone): an external
        # reference that knows its parameter names, possibly with partial arguments
        from twosigma.memento.reference import FunctionReference
        steps = d["fn"].get("steps") or [[[], {}]]
        ref = FunctionReference.from_qualified_name(
            d["fn"]["qn"], partial_args=tuple(argspec.build_arg(x) for x in steps[0][0]) or None,
            partial_kwargs={k: argspec.build_arg(v) for k, v in steps[0][1].items()} or None,
            parameter_names=list(d["fn"]["params"]), external=True)
        args = tuple(argspec.build_arg(x) for x in d.get("args", []))
        kwargs = {k: argspec.build_arg(v) for k, v in d.get("kwargs", {}).items()}
        ctx = None if d.get("ctx") is None else {k: argspec.build_arg(v) for k, v in d["ctx"].items()}
        return FunctionReferenceWithArguments(ref, args, kwargs, ctx)
    f = argspec.build_arg({"t": "fn", "name": d["fn"]["name"], "steps": d["fn"].get("steps", [])})
    args = tuple(argspec.build_arg(x) for x in d.get("args", []))
    kwargs = {k: argspec.build_arg(v) for k, v in d.get("kwargs", {}).items()}
    ctx = None if d.get("ctx") is None else {k: argspec.build_arg(v) for k, v in d["ctx"].items()}
    return FunctionReferenceWithArguments(f.fn_reference(), args, kwargs, ctx)


def _raw_view(d):
    """what the call descriptor says the arguments are, encoded by the independent specification - without going through
    any reference object of the library (whose constructor normalises its arguments)"""
    enc = lambda v: argspec.canonical_json(argspec.spec_encode(v))  # noqa: E731
    return {"args": enc([argspec.build_arg(x) for x in d.get("args", [])]),
            "kwargs": enc({k: argspec.build_arg(v) for k, v in d.get("kwargs", {}).items()}),
            "ctx": enc({} if d.get("ctx") is None else {k: argspec.build_arg(v) for k, v in d["ctx"].items()})}


def build_memento(d):
    from twosigma.memento.metadata import Memento, InvocationMetadata, ResultType
    from twosigma.memento.resource import ResourceHandle
    from twosigma.memento.types import VersionedDataSourceKey
    rwa = _build_rwa(d["call"])
    inv = InvocationMetadata(
        fn_reference_with_args=rwa,
        invocations=[_build_rwa(x) for x in d["invocations"]],
        resources=[ResourceHandle(*r) for r in d["resources"]],
        runtime=datetime.timedelta(microseconds=d["runtime_us"]),
        result_type=ResultType[d["result_type"]])
    from twosigma.memento.reference import FunctionReference
    # (a dependency set may hold several versions of one function: a memoized callee computed with the previous version of
    # a function the caller also reaches in its current version; such references do not resolve in this process)
    deps = {(FunctionReference.from_qualified_name(x["ext"], parameter_names=["p"], external=True) if "ext" in x else
             argspec.build_arg({"t": "fn", "name": x["name"], "steps": x.get("steps", [])}).fn_reference()) for x in d["deps"]}
    ck = None if d["content_key"] is None else VersionedDataSourceKey(d["content_key"][0], d["content_key"][1])
    return Memento(time=values.build(d["time"]), invocation_metadata=inv, function_dependencies=deps,
                   runner=d["runner"], correlation_id=d["cid"], content_key=ck)


def _rwa_view(r):
    return {
        "qn": r.fn_reference.qualified_name,
        "partial_args": argspec.canonical_json(argspec.spec_encode(list(r.fn_reference.partial_args or ()))),
        "partial_kwargs": argspec.canonical_json(argspec.spec_encode(dict(r.fn_reference.partial_kwargs or {}))),
        "parameter_names": list(r.fn_reference.parameter_names),
        "args": argspec.canonical_json(argspec.spec_encode(list(r.args))),
        "kwargs": argspec.canonical_json(argspec.spec_encode(dict(r.kwargs))),
        "ctx": argspec.canonical_json(argspec.spec_encode(dict(r.context_args or {}))),
        "arg_hash": r.arg_hash,
    }


def _ref_view(f):
    return (f.qualified_name,
            argspec.canonical_json(argspec.spec_encode(list(f.partial_args or ()))),
            argspec.canonical_json(argspec.spec_encode(dict(f.partial_kwargs or {}))))


def validate_arg_node(n, path, errs):
    if not isinstance(n, dict) or "type" not in n:
        errs.append("%s: argument node is not a {type, value} object: %r" % (path, n))
        return
    t = n["type"]
    if t not in ARG_TYPES:
        errs.append("%s: unknown argument type tag %r" % (path, t))
        return
    extra = set(n) - {"type", "value"}
    if extra:
        errs.append("%s: unexpected keys %r in argument node" % (path, sorted(extra)))
    if t == "null":
        return
    if "value" not in n:
        errs.append("%s: %s node without value" % (path, t))
        return
    v = n["value"]
    if t == "boolean" and not isinstance(v, bool):
        errs.append("%s: boolean value %r" % (path, v))
    elif t == "string" and not isinstance(v, str):
        errs.append("%s: string value %r" % (path, v))
    elif t == "number" and (isinstance(v, bool) or not isinstance(v, (int, float))):
        errs.append("%s: number value %r" % (path, v))
    elif t == "date" and not (isinstance(v, str) and DATE_RE.match(v)):
        errs.append("%s: date value %r is not YYYY-MM-DD" % (path, v))
    elif t == "timestamp" and not (isinstance(v, str) and TS_RE.match(v) and not v.endswith("+00:00")):
        errs.append("%s: timestamp value %r is not an ISO-8601 datetime with UTC written as Z" % (path, v))
    elif t == "list_result":
        if not isinstance(v, list):
            errs.append("%s: list value %r" % (path, v))
        else:
            for i, x in enumerate(v):
                validate_arg_node(x, "%s[%d]" % (path, i), errs)
    elif t == "dictionary":
        if not isinstance(v, dict):
            errs.append("%s: dictionary value %r" % (path, v))
        else:
            for k, x in v.items():
                validate_arg_node(x, "%s.%s" % (path, k), errs)
    elif t == "twosigma.memento.FunctionReference":
        validate_fn_ref(v, path + "<fn>", errs)


def _exact_keys(obj, keys, path, errs):
    if not isinstance(obj, dict):
        errs.append("%s: expected object, got %r" % (path, type(obj).__name__))
        return False
    if set(obj) != set(keys):
        errs.append("%s: field names %r, expected %r" % (path, sorted(obj), sorted(keys)))
        return False
    return True


def validate_fn_ref(o, path, errs):
    if not _exact_keys(o, ["qualifiedName", "partialArgs", "partialKwargs", "parameterNames"], path, errs):
        return
    if not isinstance(o["qualifiedName"], str):
        errs.append(path + ".qualifiedName not a string")
    if o["partialArgs"] is not None:
        for i, x in enumerate(o["partialArgs"]):
            validate_arg_node(x, "%s.partialArgs[%d]" % (path, i), errs)
    if o["partialKwargs"] is not None:
        for k, x in o["partialKwargs"].items():
            validate_arg_node(x, "%s.partialKwargs.%s" % (path, k), errs)
    if not (isinstance(o["parameterNames"], list) and all(isinstance(x, str) for x in o["parameterNames"])):
        errs.append(path + ".parameterNames not a list of strings")


def validate_rwa(o, path, errs):
    if not _exact_keys(o, ["fnReference", "args", "kwargs", "contextArgs"], path, errs):
        return
    validate_fn_ref(o["fnReference"], path + ".fnReference", errs)
    for i, x in enumerate(o["args"] or []):
        validate_arg_node(x, "%s.args[%d]" % (path, i), errs)
    for k, x in (o["kwargs"] or {}).items():
        validate_arg_node(x, "%s.kwargs.%s" % (path, k), errs)
    for k, x in (o["contextArgs"] or {}).items():
        validate_arg_node(x, "%s.contextArgs.%s" % (path, k), errs)


def validate_document(doc):
    errs = []
    if not _exact_keys(doc, ["time", "invocationMetadata", "functionDependencies", "runner", "correlationId", "contentKey"], "$", errs):
        return errs
    if not (isinstance(doc["time"], str) and TS_RE.match(doc["time"]) and not doc["time"].endswith("+00:00")):
        errs.append("$.time %r is not an ISO-8601 datetime" % (doc["time"],))
    im = doc["invocationMetadata"]
    if _exact_keys(im, ["fnReferenceWithArgs", "invocations", "resources", "runtimeSeconds", "resultType"], "$.invocationMetadata", errs):
        validate_rwa(im["fnReferenceWithArgs"], "$.invocationMetadata.fnReferenceWithArgs", errs)
        for i, x in enumerate(im["invocations"] or []):
            validate_rwa(x, "$.invocationMetadata.invocations[%d]" % i, errs)
        for i, x in enumerate(im["resources"] or []):
            _exact_keys(x, ["resourceType", "url", "version"], "$.invocationMetadata.resources[%d]" % i, errs)
        if isinstance(im["runtimeSeconds"], bool) or not isinstance(im["runtimeSeconds"], (int, float)):
            errs.append("runtimeSeconds %r is not a number" % (im["runtimeSeconds"],))
        if im["resultType"] not in RESULT_TYPES:
            errs.append("resultType %r not in the fixed vocabulary" % (im["resultType"],))
    for i, x in enumerate(doc["functionDependencies"] or []):
        validate_fn_ref(x, "$.functionDependencies[%d]" % i, errs)
    if doc["contentKey"] is not None and not isinstance(doc["contentKey"], str):
        errs.append("contentKey %r is not a string" % (doc["contentKey"],))
    return errs


def execute(case, scratch):
    from twosigma.memento.serialization import MementoCodec
    out = core.Outcome()
    m1 = build_memento(case)
    try:
        doc = MementoCodec.encode_memento(m1)
        text = json.dumps(doc)
        doc2 = json.loads(text)
        m2 = MementoCodec.decode_memento(doc2)
    except Exception as e:
        sig = lib_exception_signature(e)
        if sig is None:
            raise
        out.violation("codec raised %r" % (e,), symptom="exception", **sig)
        return _finish(out, case)
    for err in validate_document(doc2)[:3]:
        out.violation("emitted document violates the wire format: %s" % err, symptom="schema",
                      what=re.sub(r"[\[\.].*", "", err.split(":")[0])[:20] if err.startswith("$") else err.split(" ")[0])
    # expected resultType tag is the name chosen, expected arg type tags follow the Python types
    if doc2["invocationMetadata"].get("resultType") != case["result_type"]:
        out.violation("resultType emitted as %r for %s" % (doc2["invocationMetadata"].get("resultType"), case["result_type"]),
                      symptom="wrong-type-tag")
    tag_errs = []
    _check_tags(m1.invocation_metadata.fn_reference_with_args, doc2["invocationMetadata"]["fnReferenceWithArgs"], tag_errs)
    for e in tag_errs[:2]:
        out.violation(e, symptom="wrong-type-tag")
    # the reference objects hold the arguments they were given
    for which, dd, r in [("call", case["call"], m1.invocation_metadata.fn_reference_with_args)] + \
            [("invocation %d" % i, dd, r) for i, (dd, r) in enumerate(zip(case["invocations"], m1.invocation_metadata.invocations))]:
        raw, held = _raw_view(dd), _rwa_view(r)
        for k in raw:
            if raw[k] != held[k]:
                out.violation("%s: %s given as %s, the reference object holds %s" % (which, k, raw[k][:300], held[k][:300]),
                              symptom="field-differs", field="given." + k)
                break
    _compare(out, m1, m2, "")
    # the same memento through the metadata path of a real store (written as a JSON file, read back by a new backend object)
    if not out.violations:
        try:
            m3 = _through_store(m1, scratch)
        except Exception as e:
            sig = lib_exception_signature(e)
            if sig is None:
                raise
            out.violation("storing / re-reading the memento raised %r" % (e,), symptom="exception", path="store", **sig)
            return _finish(out, case)
        if m3 is None:
            out.violation("the memento just stored is not found by a new backend object on the same directory", symptom="not-found-after-store")
        else:
            _compare(out, m1, m3, "store: ", content_key=False)
    # ... and decoded by a process in which the module of the referenced functions is importable but not imported yet
    if not out.violations and core.hash64("c11-elsewhere", core.canon(case)) % 5 == 0:
        from vlib import proc
        r = proc.forkrun(_decode_elsewhere, doc2, timeout=120)
        refs1 = [m1.invocation_metadata.fn_reference_with_args] + list(m1.invocation_metadata.invocations)
        if "exc" in r:
            out.violation("decoding in a process that has not imported the functions' module raised %s: %s" % (r["exc"], r["msg"]),
                          symptom="exception", path="other-process", exc=r["exc"], where=r["where"])
        else:
            want_views = [_rwa_view(x) for x in refs1]
            want_ext = [bool(x.fn_reference.external) for x in refs1]
            want_deps = sorted([list(_ref_view(f)) + [bool(f.external)] for f in m1.function_dependencies])
            if r["views"] != want_views:
                i = next(i for i, (a_, b_) in enumerate(zip(r["views"], want_views)) if a_ != b_)
                k = next(k for k in want_views[i] if r["views"][i][k] != want_views[i][k])
                out.violation("decoded in a process that has not imported the functions' module, reference %d has %s = %s; here it is %s" % (
                    i, k, str(r["views"][i][k])[:200], str(want_views[i][k])[:200]), symptom="field-differs", field="elsewhere." + k)
            elif r["external"] != want_ext or r["deps"] != want_deps:
                out.violation("decoded in a process that has not imported the functions' module, resolvable references come back as external placeholders: %r (here %r)" % (
                    r["external"], want_ext), symptom="resolvable-reference-decoded-as-external")
        _elsewhere[0] += 1
    return _finish(out, case)


_elsewhere = [0]
_store_n = [0]


def _through_store(m1, scratch):
    import copy
    import os
    import shutil
    from twosigma.memento.storage_filesystem import FilesystemStorageBackend
    _store_n[0] += 1
    d = os.path.join(scratch, "c11-store-%d-%d" % (os.getpid(), _store_n[0]))
    try:
        # (the metadata half of memoize(); the result itself is not the subject here and need not match the result type)
        FilesystemStorageBackend(path=d)._metadata_source.put_memento(copy.copy(m1))
        return FilesystemStorageBackend(path=d).get_memento(m1.invocation_metadata.fn_reference_with_args.fn_reference_with_arg_hash())
    finally:
        shutil.rmtree(d, ignore_errors=True)


def _decode_elsewhere(doc):
    """forked child standing for another process that has the harness functions on its path but has not imported their
    module yet: decode the document there and report what the references look like"""
    import sys
    import vlib
    from twosigma.memento.serialization import MementoCodec
    sys.modules.pop("vlib.afuncs", None)
    if hasattr(vlib, "afuncs"):
        delattr(vlib, "afuncs")
    try:
        m2 = MementoCodec.decode_memento(doc)
        refs = [m2.invocation_metadata.fn_reference_with_args] + list(m2.invocation_metadata.invocations or [])
        return {"views": [_rwa_view(r) for r in refs], "external": [bool(r.fn_reference.external) for r in refs],
                "deps": sorted([list(_ref_view(f)) + [bool(f.external)] for f in m2.function_dependencies])}
    except Exception as e:
        import traceback
        tb = traceback.extract_tb(e.__traceback__)
        import os
        where = next(("%s:%s" % (os.path.basename(fr.filename), fr.name) for fr in reversed(tb) if "twosigma" in fr.filename), "?")
        return {"exc": type(e).__name__, "msg": str(e)[:300], "where": where}


def _compare(out, m1, m2, pre, content_key=True):
    """field-wise equivalence of two mementos"""
    def v(msg, **k):
        out.violation(pre + msg, **k)
    t1, t2 = m1.time, m2.time
    if not values.typed_equal(t1, t2):
        v("time %r decoded as %r" % (t1, t2), symptom="field-differs", field="time")
    a, b = _rwa_view(m1.invocation_metadata.fn_reference_with_args), _rwa_view(m2.invocation_metadata.fn_reference_with_args)
    for k in a:
        if a[k] != b[k]:
            v("call %s: %s became %s" % (k, a[k][:300] if isinstance(a[k], str) else a[k], b[k][:300] if isinstance(b[k], str) else b[k]),
                          symptom="field-differs", field="call." + k)
    want_hash = argspec.spec_hash(m1.invocation_metadata.fn_reference_with_args.effective_kwargs,
                                  m1.invocation_metadata.fn_reference_with_args.context_args)
    if b["arg_hash"] != want_hash:
        v("arg hash after decode %s != documented algorithm %s" % (b["arg_hash"][:12], want_hash[:12]),
                      symptom="hash-not-preserved")
    i1, i2 = m1.invocation_metadata.invocations, m2.invocation_metadata.invocations
    if [_rwa_view(x) for x in i1] != [_rwa_view(x) for x in (i2 or [])]:
        v("invocations differ after round trip", symptom="field-differs", field="invocations")
    if list(m1.invocation_metadata.resources) != list(m2.invocation_metadata.resources or []):
        v("resources %r became %r" % (m1.invocation_metadata.resources, m2.invocation_metadata.resources),
                      symptom="field-differs", field="resources")
    if sorted(_ref_view(f) for f in m1.function_dependencies) != sorted(_ref_view(f) for f in m2.function_dependencies):
        v("function dependencies differ after round trip", symptom="field-differs", field="dependencies")
    if m1.invocation_metadata.runtime != m2.invocation_metadata.runtime:
        v("runtime %r became %r" % (m1.invocation_metadata.runtime, m2.invocation_metadata.runtime),
                      symptom="field-differs", field="runtime")
    if m1.invocation_metadata.result_type is not m2.invocation_metadata.result_type:
        v("result type %r became %r" % (m1.invocation_metadata.result_type, m2.invocation_metadata.result_type),
                      symptom="field-differs", field="result_type")
    if m1.runner != m2.runner or m1.correlation_id != m2.correlation_id:
        v("runner/correlation id changed", symptom="field-differs", field="runner")
    c1, c2 = m1.content_key, m2.content_key
    if content_key and ((c1 is None) != (c2 is None) or (c1 is not None and (c1.key != c2.key or c1.version != c2.version))):
        v("content key %r became %r" % (c1, c2), symptom="field-differs", field="content_key")


def _check_tags(rwa, enc, errs):
    def tag(v):
        from twosigma.memento.types import MementoFunctionType
        if v is None:
            return "null"
        if isinstance(v, bool):
            return "boolean"
        if isinstance(v, str):
            return "string"
        if isinstance(v, (int, float)):
            return "number"
        if isinstance(v, MementoFunctionType):
            return "twosigma.memento.FunctionReference"
        if isinstance(v, list):
            return "list_result"
        if isinstance(v, dict):
            return "dictionary"
        if isinstance(v, datetime.datetime):
            return "timestamp"
        if isinstance(v, datetime.date):
            return "date"
        return "?"

    def walk(v, n, path):
        if not isinstance(n, dict):
            return
        if n.get("type") != tag(v):
            errs.append("%s: a %s was emitted with type tag %r" % (path, tag(v), n.get("type")))
            return
        if isinstance(v, list) and isinstance(n.get("value"), list):
            for i, (x, y) in enumerate(zip(v, n["value"])):
                walk(x, y, "%s[%d]" % (path, i))
        elif isinstance(v, dict) and isinstance(n.get("value"), dict):
            for k in v:
                if k in n["value"]:
                    walk(v[k], n["value"][k], "%s.%s" % (path, k))

    for i, (x, y) in enumerate(zip(rwa.args, enc.get("args") or [])):
        walk(x, y, "args[%d]" % i)
    for k, x in rwa.kwargs.items():
        if k in (enc.get("kwargs") or {}):
            walk(x, enc["kwargs"][k], "kwargs." + k)
    for k, x in (rwa.context_args or {}).items():
        if k in (enc.get("contextArgs") or {}):
            walk(x, enc["contextArgs"][k], "contextArgs." + k)


def _finish(out, case):
    text = core.canon(case)
    labs = []
    if '"t":"fn"' in text and '"steps":[[' in text:
        labs.append("nested-fnref-partial")
    if re.search(r'"t":"dt","tz":-?\d', text) or re.search(r'"tz":-?\d+,"v"', text):
        labs.append("zoned-datetime")
    if '"nan"' in text or '"inf"' in text or '"-inf"' in text:
        labs.append("non-finite")
    if case["content_key"] and "#" in case["content_key"][0]:
        labs.append("hash-in-content-key")
    if len(case["invocations"]) >= 2:
        labs.append("multi-invocation")
    if '"name":"ext"' in text:
        labs.append("external-reference-with-args")
    if '"t":"extfn"' in text:
        labs.append("unresolvable-function-as-argument")
    if core.hash64("c11-elsewhere", text) % 5 == 0:
        labs.append("also-decoded-in-a-process-without-the-module")
    out.labels = labs + ["rt:" + case["result_type"]]
    out.nontrivial = bool(labs)
    out.nt_key = [labs, re.sub(r'"v":"[^"]*"', '"v":_', text)[:4000]]
    return out


def replay(case, ctx):
    _env(ctx.scratch)
    return execute(case, ctx.scratch)


_env_done = []


def _env(scratch):
    if not _env_done:
        d = env.fresh_dir(scratch, "c11-")
        env.set_env(d, {"c": env.make_backend("memory", d)})
        _env_done.append(d)


def strategy():
    from hypothesis import strategies as st
    A = argspec.strategies()
    S = A.S
    printable = st.text(alphabet=st.characters(min_codepoint=32, max_codepoint=126), max_size=12)

    # a function-valued argument whose function (version) cannot be resolved here, plain / partially applied / inside a list
    extfn = st.builds(lambda qn, pa, pk: {"t": "extfn", "qn": qn, "params": ["x", "scale", "w"], "pargs": pa, "pkwargs": pk},
                      st.sampled_from(["c::gone.module:model#3", "vlib.afuncs:g2#0-old", "pkg.m:f#1"]),
                      st.lists(A.simple, max_size=1), st.one_of(st.just({}), st.just({}), A.simple.map(lambda v: {"w": v})))
    ARG = st.one_of(A.arg, A.arg, A.arg, A.arg, extfn, extfn.map(lambda e: {"t": "list", "v": [e]}))

    @st.composite
    def ext_call(draw):
        qn = draw(st.sampled_from(["c::gone.module:fn#3", "other::pkg.mod:compute#abc123", "vlib.afuncs:g1#0-old", "c::vlib.afuncs:nosuch#1",
                                   "pkg.sub.mod:Outer.method#v:2"]))
        params = ["p", "q", "r"]
        steps = []
        used = 0
        kind = draw(st.integers(0, 3))
        if kind == 1:
            steps = [[[draw(A.simple)], {}]]
            used = 1
        elif kind == 2:
            steps = [[[], {"r": draw(A.simple)}]]
        rest = [x for x in params[used:] if not (steps and x in steps[0][1])]
        npos = draw(st.integers(0, len(rest))) if not (steps and steps[0][1]) else draw(st.integers(0, min(2, len(rest))))
        args = [draw(A.simple) for _ in range(npos)]
        kwargs = {k: draw(A.simple) for k in draw(st.lists(st.sampled_from(rest[npos:]), max_size=2, unique=True))} if rest[npos:] else {}
        return {"fn": {"name": "ext", "qn": qn, "params": params, "steps": steps}, "args": args, "kwargs": kwargs, "ctx": draw(A.ctx)}

    @st.composite
    def call(draw):
        if draw(st.integers(0, 5)) == 0:
            return draw(ext_call())
        name = draw(st.sampled_from(["g1", "g2", "g3", "g5", "g6", "h1", "h2"]))
        params = {"g1": ["a"], "g2": ["a", "b"], "g3": ["a", "b", "c"], "g5": ["a", "b"], "g6": ["a", "b", "c", "d", "e"],
                  "h1": ["a", "b", "c"], "h2": ["x", "y"]}[name]
        steps = []
        used = 0
        if draw(st.integers(0, 3)) == 0 and len(params) > 1:
            steps.append([[draw(A.simple)], {}])
            used = 1
        rest = params[used:]
        npos = draw(st.integers(0, len(rest)))
        args = [draw(ARG) for _ in range(npos)]
        kwn = draw(st.lists(st.sampled_from(rest[npos:] + ["extra"]) if name in ("g5",) else
                            (st.sampled_from(rest[npos:]) if rest[npos:] else st.nothing()), max_size=2, unique=True)) if (rest[npos:] or name == "g5") else []
        kwargs = {k: draw(ARG) for k in kwn}
        return {"fn": {"name": name, "steps": steps}, "args": args, "kwargs": kwargs, "ctx": draw(A.ctx)}

    fnd = st.one_of(st.builds(lambda n, s: {"name": n, "steps": s}, st.sampled_from(["g1", "g2", "h1", "h2", "g7"]), st.just([])),
                    st.builds(lambda n, s: {"name": n, "steps": s}, st.sampled_from(["g1", "g2", "h1", "h2", "g7"]), st.just([])),
                    st.sampled_from(["c::gone.module:fn#3", "c::gone.module:fn#4", "vlib.afuncs:g1#0-old", "vlib.afuncs:g1#1-older", "pkg.m:f#1", "pkg.m:f#2"]).map(lambda q: {"ext": q}))

    # resource urls as the library's own resource functions produce them (percent escapes, also escaped escapes)
    URLS = st.sampled_from(["file:///data/a%20b.csv", "file:///data/q3%2520report.csv", "http://h/x?u=http%3A%2F%2Fz%2Fp%3Fa%3D1", "s3://b/100%25.parquet", "%41", "a%"])

    @st.composite
    def case(draw):
        t = draw(st.one_of(A.dt(), A.dt().map(lambda d: dict(d, tz=0))))
        ck = draw(st.one_of(
            st.none(),
            st.tuples(st.one_of(printable, st.sampled_from(["c/0123abcd", "runs/b#7/out", "a#b", "#", "x#"])),
                      st.one_of(st.uuids().map(str), st.just(""), st.sampled_from(["v1", "0"]))).map(list)))
        return {
            "time": t,
            "call": draw(call()),
            "invocations": draw(st.lists(call(), max_size=5)),
            "resources": draw(st.lists(st.tuples(printable, st.one_of(S.text, URLS), S.text).map(list), max_size=3)),
            "deps": draw(st.lists(fnd, max_size=4)),
            "runtime_us": draw(st.one_of(st.integers(0, 10**12), st.sampled_from([0, 1, 999999, 10**12, 123 * 86400 * 10**6]))),
            "result_type": draw(st.sampled_from(RESULT_TYPES)),
            "runner": draw(st.one_of(st.just({"type": "local"}), st.dictionaries(S.ident, S.text, max_size=2))),
            "cid": draw(printable),
            "content_key": ck,
        }

    return case()


def run_shard(ctx):
    argspec.self_test()
    _env(ctx.scratch)
    stats = core.Stats()
    n = 30000 if ctx.tier == "thorough" else 600
    core.hyp_search(strategy(), lambda c: execute(c, ctx.scratch), stats, max_examples=n,
                    seed=core.hash64(ctx.seed, ID, ctx.shard), findings=ctx.findings,
                    deadline_s=(ctx.deadline - time.time()) if ctx.deadline else None)
    return stats

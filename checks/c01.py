"""C01 - memoized results are never stale with respect to code and data changes."""
import os
import time

from vlib import core, env, progs, progrun, proc

ID = "C01"
LEVEL = "exploration"
SHARDS = {"quick": 16, "thorough": 16}
TIER_LIMIT_S = {"quick": 420, "thorough": 3 * 3600}
RULE = (
    "Hypothesis generates a program (2-6 functions in 1-2 modules of one package: memento functions with automatic or explicit version and optional cluster, plain helpers, "
    "module variables of type int/list/dict/str, bodies from an expression grammar with literals, parameters, positional and keyword-only defaults, set literals (int and str), "
    "tuple indexing, lambda / inner def with own default / comprehension constants, calls by bare name, module attribute, alias and functools.wraps wrapper, hidden dynamic calls "
    "through globals() and sys.modules; cycles allowed, recursion bounded by a decreasing argument) and a history of 1-5 edits (literal, nested-code constant, positional default, "
    "keyword-only default, set/tuple member, variable rebinding, in-place list/dict mutation, call-edge retarget, hide/unhide a call, explicit version bump), each delivered by restart "
    "(fresh forked process importing the edited files against the same persistent store) or in-process (re-executing the definition as a notebook cell, or overwriting the source file and re-executing the definition from it at its own line, / rebinding / mutating in the running process). "
    "After every edition all automatically-versioned memento functions are called twice with two arguments (directly, through partial() or force_local(), or through two or three chained modifiers). Oracle: the same edition "
    "(same files and same cell sequence) executed in a fresh process with the decorator replaced by the identity. A memoized call must return the reference value or raise "
    "UndeclaredDependencyError. Non-trivial = at least one applied edit changes the reference result of a root memoized before it; distinct by (program, history)."
    " Round 5: definitions may carry unusual but legal names - a variable, helper or memoized callee named like a builtin (filter, format, input, id, hash, ...) or with a name that makes the qualified name 140-215 characters long."
    " Round 6: references made from nested scopes (lambda, nested def, comprehension, generator expression), next to a nested function's parameter of the same name, or kept in a local named like the dotted reference's last component; parameters whose default is a module-level list / dict."
)
ASSUMPTIONS = [
    "an in-process re-definition of a function that has an alias/wrapper bound to it is delivered by restart instead (the alias would keep the old object alive next to the new one)",
    "'fresh process' is a forked child of a process that has imported twosigma.memento but never any generated code",
    "an explicit version is the author's assertion of unchanged behaviour: the generator bumps it whenever the function or anything reachable from it is edited",
    "variables are restricted to types GlobalVariableHashRule serialises; helpers live in the same package",
    "hidden dynamic calls are only generated towards memento functions: a dynamically dispatched plain helper can be neither detected nor refused (known finding hidden-plain-callee); the count of avoided constructions is not measurable per case because avoidance is in the grammar",
]
MANIFEST = {
    "level": "exploration",
    "technique": "property-based testing with Hypothesis: generated programs x generated edit histories, differential against un-memoized execution of the same text in a fresh process",
    "text": "Each generated program/edit history is executed memoized (persistent store carried across forked processes and in-process edits) and un-memoized (identity decorator); any returned value that differs from the un-memoized one is a violation, classified as stale when it equals an earlier edition's value.",
    "note": "Trusts the fork-based process harness and the identity-decorator reference; program grammar bounded as stated.",
}


def _segments(case):
    """Returns (editions, segments). editions[i] = (program, info). segments = [[edition indices]]"""
    p = case["program"]
    editions = [(p, {"applied": True, "kind": "initial", "cells": []})]
    segs = [[0]]
    skipped = 0
    for i, h in enumerate(case["history"]):
        edit = h["edit"]
        if edit["kind"] == "follow":
            # edit whatever the previous edit made newly referenced (a variable, or a literal inside a function)
            ref = editions[-1][1].get("new_ref")
            if not ref:
                skipped += 1
                continue
            tgt = progs.resolve_fn(editions[-1][0], ref) if progs.find(editions[-1][0], ref)["k"] != "var" else progs.find(editions[-1][0], ref)
            edit = dict(edit, kind="var" if tgt["k"] == "var" else "lit", target=tgt["name"])
        p2, info = progs.apply_edit(editions[-1][0], edit, "e%d" % (i + 1))
        if not info["applied"] and edit["kind"] in progs.EDIT_KINDS:
            # the drawn kind has no site in this program: take the next kind (in the fixed order) that has one
            k0 = progs.EDIT_KINDS.index(edit["kind"])
            for j in range(1, len(progs.EDIT_KINDS)):
                alt = progs.EDIT_KINDS[(k0 + j) % len(progs.EDIT_KINDS)]
                if alt == "follow":
                    continue
                p2, info = progs.apply_edit(editions[-1][0], dict(edit, kind=alt), "e%d" % (i + 1))
                if info["applied"]:
                    break
        if not info["applied"]:
            skipped += 1
            continue
        delivery = h["delivery"]
        if delivery in ("inproc", "inprocfile") and any(d["k"] in ("alias", "wrapper") and d["target"] in info["cells"] for d in p2["defs"]):
            # re-executing the definition of a function that has an alias/wrapper leaves two live editions of
            # "the same" function in the process (the alias keeps the old object); such an edit is delivered by restart
            delivery = "restart"
            info["aliased_restart"] = True
        info["delivery"] = delivery
        editions.append((p2, info))
        if delivery == "restart":
            segs.append([len(editions) - 1])
        else:
            segs[-1].append(len(editions) - 1)
    return editions, segs, skipped


def _cells(prog, info):
    cells = []
    if info.get("stmt"):
        cells.append([info["target_mod"], info["stmt"]])
    for name in info["cells"]:
        d = progs.find(prog, name)
        cells.append([d["mod"], progs.render_def(prog, d)])
    return cells


def execute(case, scratch):
    out = core.Outcome()
    d = env.fresh_dir(scratch, "c01-")
    try:
        editions, segs, skipped = _segments(case)
        store = os.path.join(d, "store")
        os.makedirs(store)
        p0 = case["program"]
        roots = []
        excluded = 0
        for f in progs.fns(p0):
            if f["memento"] and f.get("version") is None:
                pres = case.get("pres", "direct")
                roots.append([f["mod"], f["name"], pres])
        mem_steps, ref_steps = [], []
        for si, seg in enumerate(segs):
            base_prog = editions[seg[0]][0]
            pkgroot = os.path.join(d, "seg%d" % si)
            progrun.write_files(pkgroot, progs.render_files(base_prog))
            steps = [{}]
            for i in seg[1:]:
                prog_i, info_i = editions[i]
                if info_i.get("delivery") == "inprocfile" and not info_i.get("stmt"):
                    # the source files are overwritten with the edited text and the touched definitions re-executed from them
                    steps.append({"cells": [], "files": progs.render_files(prog_i),
                                  "redef": [[progs.find(prog_i, n)["mod"], n] for n in info_i["cells"]]})
                else:
                    steps.append({"cells": _cells(prog_i, info_i)})
            spec = {"pkgroot": pkgroot, "pkg": base_prog["pkg"], "modules": base_prog["modules"], "store": store,
                    "steps": steps, "roots": roots, "args": case.get("args", [1, 2]), "repeat": 2}
            mem_steps += proc.forkrun(progrun.run_segment, dict(spec, identity=False))
            # (an in-process step may have overwritten the source files: the reference run starts from the same text)
            progrun.write_files(pkgroot, progs.render_files(base_prog))
            ref_steps += proc.forkrun(progrun.run_segment, dict(spec, identity=True), env={"VERIF_RT_IDENTITY": "1"})
        changed_memoized = False
        kinds_since = []
        for ei, (mstep, rstep) in enumerate(zip(mem_steps, ref_steps)):
            kinds_since.append(editions[ei][1]["kind"] + ":" + editions[ei][1].get("delivery", "-"))
            for key, rres in rstep["results"].items():
                mres = mstep["results"].get(key)
                if mres is None:
                    out.violation("edition %d: root %s missing in the memoized run" % (ei, key), symptom="root-missing")
                    continue
                for ai, (rr, mm) in enumerate(zip(rres, mres)):
                    if ei > 0 and "ok" in rr[0] and "ok" in ref_steps[ei - 1]["results"].get(key, [[{}]] * (ai + 1))[ai][0] \
                            and rr[0]["ok"] != ref_steps[ei - 1]["results"][key][ai][0]["ok"]:
                        changed_memoized = True
                    for rep, (r1, m1) in enumerate(zip(rr, mm)):
                        if "exc" in r1:
                            out.labels.append("ref-raised")
                            continue
                        if m1.get("exc") == "UndeclaredDependencyError":
                            out.labels.append("undeclared-dependency-raised")
                            continue
                        if "exc" in m1:
                            out.violation("edition %d (%s): %s(%d) raised %s: %s; un-memoized execution returns %r" % (
                                ei, kinds_since[-1], key, case.get("args", [1, 2])[ai], m1["exc"], m1["msg"], r1["ok"]),
                                symptom="exception", exc=m1["exc"])
                            continue
                        if m1["ok"] != r1["ok"]:
                            earlier = [j for j in range(ei) if key in ref_steps[j]["results"]
                                       and ref_steps[j]["results"][key][ai][0].get("ok") == m1["ok"]]
                            info = editions[ei][1]
                            if earlier:
                                since = sorted({editions[j][1]["kind"] for j in range(earlier[-1] + 1, ei + 1)})
                                out.violation(
                                    "edition %d: %s(%d) returned %r, the value of edition %d; un-memoized execution of the current program returns %r. Edits since: %s (last: %s of %s '%s', delivered %s)" % (
                                        ei, key, case.get("args", [1, 2])[ai], m1["ok"], earlier[-1], r1["ok"],
                                        [editions[j][1]["kind"] for j in range(earlier[-1] + 1, ei + 1)], info["kind"], info.get("target_is"),
                                        info.get("target"), info.get("delivery")),
                                    symptom="stale", edit_kinds=since, delivery=info.get("delivery"),
                                    held_clone=case.get("pres") == "held-clone",
                                    via_hidden_plain=any(progs.hidden_plain_reachable(ed[0], key.split(".")[1]) for ed in editions),
                                    clone_root_hidden=[r[2] for r in roots if r[1] == key.split(".")[1]][0] != "direct"
                                    and any(progs.has_hidden(ed[0], key.split(".")[1]) for ed in editions))
                            else:
                                out.violation("edition %d: %s(%d) returned %r, un-memoized execution returns %r" % (
                                    ei, key, case.get("args", [1, 2])[ai], m1["ok"], r1["ok"]), symptom="wrong-value")
                        if rep == 1 and mm[0] != mm[1] and "ok" in mm[0] and "ok" in mm[1]:
                            out.violation("edition %d: %s returned %r then %r" % (ei, key, mm[0], mm[1]), symptom="unstable")
            if out.violations:
                break
        applied = [e[1] for e in editions[1:]]
        out.nontrivial = changed_memoized and bool(applied)
        out.excluded = excluded + sum(1 for e in editions if e[1].get("aliased_restart"))
        out.labels = sorted(set(out.labels) | {"edit:" + a["kind"] for a in applied} | {"delivery:" + a["delivery"] for a in applied}
                            | {"feat:" + f for f in progs.features(p0)} | {"pres:" + case.get("pres", "direct")} | ({"family:value-heavy"} if all(h["edit"]["kind"] in ("var", "varcopy") for h in case["history"]) and len([d for d in p0["defs"] if d["k"] == "var"]) >= 3 else set())
                            | ({"changed-memoized-root"} if changed_memoized else set()) | ({"edits-skipped"} if skipped else set()))
        out.render = {"program": {k: progs.render_files(p0)[k] for k in progs.render_files(p0) if not k.endswith("__init__.py")},
                      "history": [(a["kind"], a.get("target"), a.get("delivery")) for a in applied], "pres": case.get("pres")}
        return out
    finally:
        env.rm(d)


def replay(case, ctx):
    return execute(case, ctx.scratch)


def strategy(thorough):
    from hypothesis import strategies as st
    hist = st.lists(st.builds(lambda e, dl: {"edit": e, "delivery": dl}, progs.edit_strategy(),
                              st.sampled_from(["restart", "inproc", "inproc", "inprocfile"])), min_size=1, max_size=5 if thorough else 3)
    # correlated pair: make a function refer to something new, then edit that something
    ed = progs.edit_strategy()
    pair = st.builds(
        lambda e1, k1, e2, d1, d2, pre: pre + [{"edit": dict(e1, kind=k1), "delivery": d1}, {"edit": dict(e2, kind="follow"), "delivery": d2}],
        ed, st.sampled_from(["addglob", "retarget"]), ed, st.sampled_from(["inproc", "inprocfile", "restart"]),
        st.sampled_from(["inproc", "inprocfile", "restart"]),
        st.lists(st.builds(lambda e, dl: {"edit": e, "delivery": dl}, ed, st.sampled_from(["restart", "inproc"])), max_size=1))
    hist = st.integers(0, 2).flatmap(lambda i: pair if i == 0 else hist)
    pres = st.sampled_from(["direct", "direct", "direct", "partial", "force_local", "partial+force_local", "ctx+partial", "force_local+ignore+partial"])
    general = st.builds(lambda p, h, pres: {"program": p, "history": h, "pres": pres, "args": [1, 2]},
                        progs.program_strategy(max_fns=7 if thorough else 5, allow_fdef=True, allow_dictset=True, allow_tuplist=True, allow_init=True, allow_declared=True, allow_rename=True, allow_nested_refs=True, allow_gdef=True), hist, pres)
    # value-heavy programs: several variables holding few distinct values, all read by the root; the history gives
    # variables the values other variables hold (versions must differ although every single value was seen before)
    vhist = st.lists(st.builds(lambda e, k, dl: {"edit": dict(e, kind=k), "delivery": dl}, ed, st.sampled_from(["varcopy", "varcopy", "var"]),
                               st.sampled_from(["restart", "inproc"])), min_size=1, max_size=3)
    heavy = st.builds(lambda p, h, pres: {"program": p, "history": h, "pres": pres, "args": [1, 2]},
                      progs.program_strategy(max_fns=3, value_heavy=True, allow_hidden=False), vhist, pres)
    # helper-heavy programs: one memento root over two plain helpers whose results depend on their default values; the
    # history edits only the helpers (defaults, literals, nested constants), delivered in every way
    hhist = st.lists(st.builds(lambda e, k, t, dl: {"edit": dict(e, kind=k, target=t), "delivery": dl}, ed,
                               st.sampled_from(["pdef", "pdef", "kwdef", "lit", "nested"]), st.sampled_from(["f1", "f2"]),
                               st.sampled_from(["restart", "inproc", "inprocfile", "inprocfile"])), min_size=1, max_size=3)
    helpers = st.builds(lambda p, h, pres: {"program": p, "history": h, "pres": pres, "args": [1, 2]},
                        progs.program_strategy(max_fns=3, helper_heavy=True, allow_hidden=False, allow_alias=False, allow_explicit=False), hhist, pres)
    # (one_of de-duplicates identical branches, so the mix is drawn explicitly)
    return st.integers(0, 9).flatmap(lambda i: heavy if i < 2 else (helpers if i == 2 else general))


def directed_cases():
    """
    Enumerated family: one small program (root f0 -> memento f1 -> plain helper f2 -> variable G0; f0 -> f2) under unusual
    but legal names - a very long name for the memoized callee or the helper (qualified names of 160-200 characters),
    builtin names for helper and variable - times one edit (callee literal, helper literal, variable) times the delivery.
    Generated search draws such names too, with some probability per run; this family does not depend on the seed.
    """
    lit = lambda v: {"e": "lit", "v": v}  # noqa: E731
    call = lambda f: {"e": "call", "f": f}  # noqa: E731
    add = lambda a, b: {"e": "add", "a": a, "b": b}  # noqa: E731

    def fn(name, memento, body):
        return {"k": "fn", "mod": "a", "name": name, "memento": memento, "version": None, "cluster": None, "pdef": None, "kwdef": None, "fdef": None,
                "base": lit(1), "body": body}
    base = {"pkg": "vpk", "modules": ["a"], "defs": [
        {"k": "var", "mod": "a", "name": "G0", "vtype": "int", "value": 3},
        fn("f2", False, add({"e": "x"}, {"e": "glob", "n": "G0"})), fn("f1", True, add(call("f2"), lit(5))),
        fn("f0", True, add(call("f1"), call("f2")))]}
    for ren in ({}, {"f1": "f1_" + "q" * 150}, {"f1": "f1_" + "q" * 190}, {"f2": "f2_" + "q" * 150}, {"f2": "format", "G0": "filter"},
                {"f1": "input", "G0": "hash"}):
        p = progs.rename_defs(base, ren) if ren else base
        for kind, tgt in (("lit", "f1"), ("lit", "f2"), ("var", "G0")):
            for dl in ("restart", "inproc"):
                e = {"kind": kind, "site": 0, "delta": 1, "alt": False, "idx": 0, "target": ren.get(tgt, tgt)}
                yield {"program": p, "history": [{"edit": e, "delivery": dl}], "pres": "direct", "args": [1, 2], "src": "directed-names"}


def run_shard(ctx):
    stats = core.Stats()
    thorough = ctx.tier == "thorough"
    core.enum_search(list(directed_cases()), lambda c: execute(c, ctx.scratch), stats, findings=ctx.findings, shard=ctx.shard, nshards=ctx.nshards,
                     deadline_s=max((ctx.deadline - time.time()) * 0.3, 5) if ctx.deadline else None)
    core.hyp_search(strategy(thorough), lambda c: execute(c, ctx.scratch), stats, max_examples=1500 if thorough else 70,
                    seed=core.hash64(ctx.seed, ID, ctx.shard), findings=ctx.findings, shrink=True,
                    deadline_s=(ctx.deadline - time.time()) if ctx.deadline else None)
    return stats

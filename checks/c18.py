"""C18 - declarative configuration is honoured, ordered, and reproducible from its dump."""
import itertools
import json
import os
import time

import twosigma.memento as m
from twosigma.memento.storage import StorageBackend
from twosigma.memento.storage_filesystem import FilesystemStorageBackend
from twosigma.memento.storage_memory import MemoryStorageBackend
from twosigma.memento.storage_null import NullStorageBackend

from vlib import core, env, storeops, hfuncs, fsaudit, rt, tfuncs
from vlib.excs import lib_exception_signature

ID = "C18"
LEVEL = "exploration"
SHARDS = {"quick": 16, "thorough": 16}
RULE = (
    "The option matrix is enumerated. (A) backend level: config {metadata_path absent/same/different} x {memory_cache_mb absent/0.5/2} x {readonly absent/true/false} x explicit arguments "
    "{read_only None/True/False} x {memory_cache_mb None/1/0 (0 switches a configured cache off)} x {path None/other} x {metadata_path None / equal to the data path (switches a configured metadata path off)} x construction {constructor with config, StorageBackend.create}; (B) cluster/environment level: storage type "
    "{filesystem, memory, null} x runner {absent, local, null} x readonly x cache (incl. fractional sizes) x metadata path x source {constructor objects, inline dict, JSON files, YAML file with jinja parameters; for a sample also with a base directory named 'R&D <team> 100%' passed as template parameter} "
    "x 1-3 repositories defining the same cluster name in every priority order, each also rebuilt from Environment.to_dict(); (C) a live environment: every sequence of up to 4 (quick) / 6 (thorough) operations "
    "{resolve cluster c, resolve d, prepend a repository defining c, prepend one defining d, append one defining c, append one defining c and d} after which each name must resolve to the first repository in the current priority order (or to nothing), also after a dump/rebuild. Oracle: differential on behaviour against the effective options computed "
    "by an independent model: files appear under the configured data/metadata roots (audit hook), a second read opens no file iff a cache of the configured size exists, memoize writes nothing and forget raises "
    "iff read-only, null/memory/filesystem storage and local/null runner behave as their type, get_cluster(name) is the first repository's cluster or None, the environment rebuilt from its dump passes the same probes "
    "on the same paths. Non-trivial = point with >= 2 options set and a source other than the constructor; distinct by matrix point."
)
ASSUMPTIONS = [
    "absolute paths only (relative paths handed to Environment.from_file are outside the stated matrix)",
    "cache presence/size is observed behaviourally (file opens on re-read) and through MemoryCache.memory_cache_bytes",
]
MANIFEST = {
    "level": "exploration",
    "technique": "exhaustive enumeration of the finite option matrix and of short live-environment histories (sharded) with a behavioural differential oracle against an independently computed effective configuration / repository-list model",
    "text": "Every point of the backend-level matrix and a large enumerated part of the cluster/environment-level matrix is constructed from each source and probed behaviourally (where files appear, whether re-reads touch the store, whether writes/forgets are refused, which repository wins), before and after a to_dict() round trip.",
    "note": "Trusts the independent model of effective options in checks/c18.py and the audit hook.",
}


# ------------------------------------------------------------------------------------------
# behavioural probe
# ------------------------------------------------------------------------------------------

def probe_storage(storage, exp, problems, label):
    """exp: {"type", "data", "meta", "cache_mb" (None|float), "readonly"}"""
    refs = hfuncs.refs()
    rwa = refs["f#1"].with_args(exp.get("probe_arg", 0))
    val = "probe-value-%s" % exp.get("probe_arg", 0)
    t = exp["type"]
    if storage.storage_type != t:
        problems.append(("storage-type", "%s: storage type %r, configured %r" % (label, storage.storage_type, t)))
        return
    ro = bool(exp["readonly"])
    if bool(storage.read_only) != ro:
        problems.append(("readonly-flag", "%s: read_only=%r, effective configuration says %r" % (label, storage.read_only, ro)))
    roots = sorted({exp["data"], exp["meta"]}) if t == "filesystem" else []
    ws = [fsaudit.Watch(r) for r in roots]
    for w in ws:
        w.__enter__()
    try:
        storage.memoize(None, storeops.make_memento(rwa, val), val)
    finally:
        for w in ws:
            w.__exit__(None, None, None)
    wrote = {w.root: [e for e in w.mutations()] for w in ws}
    memoized = bool(storage.is_memoized(rwa.fn_reference, rwa.arg_hash))
    if t == "null":
        if memoized:
            problems.append(("null-storage-memoized", "%s: null storage reports a memoized call" % label))
        return
    if ro:
        if any(wrote.values()):
            problems.append(("readonly-wrote", "%s: read-only store was written to" % label))
        if memoized:
            problems.append(("readonly-memoized", "%s: memoize had an effect on a read-only store" % label))
        try:
            storage.forget_call(rwa.fn_reference_with_arg_hash())
            problems.append(("readonly-forget-accepted", "%s: forget accepted on a read-only store" % label))
        except ValueError:
            pass
        return
    if not memoized:
        problems.append(("not-memoized", "%s: memoize on a writable %s store had no effect" % (label, t)))
        return
    if t == "filesystem":
        data_writes = [e for e in wrote.get(os.path.abspath(exp["data"]), [])]
        meta_writes = [e for e in wrote.get(os.path.abspath(exp["meta"]), [])]
        rel = lambda e, root: os.path.relpath(e["path"], root).split(os.sep)[0]  # noqa: E731
        if not any(rel(e, exp["data"]) == "c" for e in data_writes):
            problems.append(("data-not-under-path", "%s: no result object was written under the configured path %s" % (label, exp["data"])))
        if not any(rel(e, exp["meta"]) == "m" for e in meta_writes):
            problems.append(("metadata-not-under-metadata-path", "%s: no memento was written under the configured metadata path %s" % (label, exp["meta"])))
        if os.path.abspath(exp["meta"]) != os.path.abspath(exp["data"]) and any(rel(e, exp["data"]) == "m" for e in data_writes):
            problems.append(("metadata-under-data-path", "%s: mementos were written under the data path although a metadata path is configured" % label))
        # cache: a re-read touches the store iff there is no cache
        mem = storage.get_memento(rwa.fn_reference_with_arg_hash())
        storage.read_result(mem)
        with fsaudit.Watch(exp["data"]) as w:
            got = storage.read_result(storage.get_memento(rwa.fn_reference_with_arg_hash()))
        opened = [e for e in w.events if e["event"] == "open"]
        if got != val:
            problems.append(("wrong-value", "%s: read back %r" % (label, got)))
        has_cache = bool(exp["cache_mb"])
        if has_cache and opened:
            problems.append(("cache-missing", "%s: memory_cache_mb=%r configured but a re-read opened %d files" % (label, exp["cache_mb"], len(opened))))
        if not has_cache and not opened:
            problems.append(("unexpected-cache", "%s: no cache configured but a re-read opened no file" % label))
        if has_cache:
            mc = getattr(storage, "_memory_cache", None)
            size = None if mc is None else mc.memory_cache_bytes
            if size is None or abs(size - exp["cache_mb"] * 1024 * 1024) > 1:
                problems.append(("cache-size", "%s: cache budget %r bytes, configured %r MB" % (label, size, exp["cache_mb"])))
    else:  # memory
        if any(wrote.values()):
            problems.append(("memory-wrote-files", "%s: memory storage wrote files" % label))
    try:
        storage.forget_call(rwa.fn_reference_with_arg_hash())
    except Exception as e:
        problems.append(("forget-refused", "%s: forget on a writable store raised %r" % (label, e)))


def probe_runner(cluster, exp_runner, problems, label, dirpath):
    t = cluster.runner.to_dict().get("type")
    if t != exp_runner:
        problems.append(("runner-type", "%s: runner type %r, configured %r" % (label, t, exp_runner)))


# ------------------------------------------------------------------------------------------
# part A: backend level
# ------------------------------------------------------------------------------------------

def effective_a(pt, d):
    data = os.path.join(d, "argpath") if pt["arg_path"] else os.path.join(d, "cfgpath")
    if pt.get("arg_meta") == "data":
        meta = data      # explicit argument: metadata next to the data (switches a configured metadata path off)
    elif pt["cfg_meta"] == "absent":
        meta = data
    elif pt["cfg_meta"] == "same":
        meta = os.path.join(d, "cfgpath")
    else:
        meta = os.path.join(d, "cfgmeta")
    cache = pt["arg_cache"] if pt["arg_cache"] is not None else pt["cfg_cache"]
    ro = pt["arg_ro"] if pt["arg_ro"] is not None else (pt["cfg_ro"] if pt["cfg_ro"] is not None else False)
    return {"type": "filesystem", "data": data, "meta": meta, "cache_mb": cache, "readonly": ro}


def points_a():
    for cfg_meta, cfg_cache, cfg_ro, arg_ro, arg_cache, arg_path, via, arg_meta in itertools.product(
            ["absent", "same", "different"], [None, 0.5, 2], [None, True, False], [None, True, False],
            [None, 1, 0], [False, True], ["ctor", "create"], [None, "data"]):
        if via == "create" and (arg_ro is not None or arg_cache is not None or arg_path or arg_meta):
            continue  # the registry passes the configuration only
        yield {"part": "A", "cfg_meta": cfg_meta, "cfg_cache": cfg_cache, "cfg_ro": cfg_ro, "arg_ro": arg_ro,
               "arg_cache": arg_cache, "arg_path": arg_path, "via": via, "arg_meta": arg_meta}


def run_a(pt, scratch):
    out = core.Outcome()
    d = env.fresh_dir(scratch, "c18a-")
    try:
        cfg = {"path": os.path.join(d, "cfgpath")}
        if pt["cfg_meta"] == "same":
            cfg["metadata_path"] = cfg["path"]
        elif pt["cfg_meta"] == "different":
            cfg["metadata_path"] = os.path.join(d, "cfgmeta")
        if pt["cfg_cache"] is not None:
            cfg["memory_cache_mb"] = pt["cfg_cache"]
        if pt["cfg_ro"] is not None:
            cfg["readonly"] = pt["cfg_ro"]
        exp = effective_a(pt, d)
        problems = []
        try:
            if pt["via"] == "create":
                st = StorageBackend.create("filesystem", dict(cfg, type="filesystem"))
            else:
                st = FilesystemStorageBackend(config=cfg, path=os.path.join(d, "argpath") if pt["arg_path"] else None,
                                              memory_cache_mb=pt["arg_cache"], read_only=pt["arg_ro"],
                                              metadata_path=exp["data"] if pt.get("arg_meta") == "data" else None)
            probe_storage(st, exp, problems, "backend")
            # dump -> rebuild -> same behaviour on the same paths
            dump = json.loads(json.dumps(st.to_dict()))
            st2 = StorageBackend.create(dump["type"], dump)
            probe_storage(st2, dict(exp, probe_arg=1), problems, "backend rebuilt from to_dict()")
        except Exception as e:
            sig = lib_exception_signature(e)
            if sig is None:
                raise
            out.violation("constructing/probing %r raised %r" % (pt, e), symptom="exception", **sig)
        for sym, msg in problems:
            out.violation("%s  [point %s]" % (msg, json.dumps(pt, sort_keys=True)), symptom=sym, part="A",
                          rebuilt="rebuilt" in msg)
        nset = sum(1 for k in ("cfg_cache", "cfg_ro", "arg_ro", "arg_cache", "arg_meta") if pt.get(k) is not None) + (pt["cfg_meta"] != "absent") + pt["arg_path"]
        out.nontrivial = nset >= 2
        out.labels = ["A:via:" + pt["via"]] + (["A:explicit-override"] if pt["arg_ro"] is not None or pt["arg_cache"] is not None or pt["arg_path"] else [])
        return out
    finally:
        env.rm(d)


# ------------------------------------------------------------------------------------------
# part B: clusters, repositories, environments, sources, dump round trip
# ------------------------------------------------------------------------------------------

def storage_cfg(spec, base):
    cfg = {"type": spec["type"]}
    if spec["type"] == "filesystem":
        cfg["path"] = os.path.join(base, spec["dir"], "data")
        if spec.get("meta"):
            cfg["metadata_path"] = os.path.join(base, spec["dir"], "meta")
        if spec.get("cache") is not None:
            cfg["memory_cache_mb"] = spec["cache"]
    if spec.get("readonly") is not None:
        cfg["readonly"] = spec["readonly"]
    return cfg


def expected_b(spec, base):
    data = os.path.join(base, spec["dir"], "data")
    return {"type": spec["type"], "data": data, "meta": os.path.join(base, spec["dir"], "meta") if spec.get("meta") else data,
            "cache_mb": spec.get("cache") if spec["type"] == "filesystem" else None,
            "readonly": bool(spec.get("readonly"))}


def build_env(case, base):
    """Builds the Environment from the requested source. Returns it."""
    src = case["source"]
    repos_spec = case["repos"]
    if src == "ctor":
        repos = []
        for ri, rs in enumerate(repos_spec):
            clusters = {}
            for cname, spec in rs["clusters"].items():
                cfg = storage_cfg(spec, base)
                if spec["type"] == "filesystem":
                    st = FilesystemStorageBackend(path=cfg["path"], metadata_path=cfg.get("metadata_path"),
                                                  memory_cache_mb=cfg.get("memory_cache_mb"), read_only=cfg.get("readonly"))
                elif spec["type"] == "memory":
                    st = MemoryStorageBackend(read_only=cfg.get("readonly"))
                else:
                    st = NullStorageBackend()
                runner = None
                if spec.get("runner"):
                    from twosigma.memento.runner import RunnerBackend
                    runner = RunnerBackend.create(spec["runner"], {})
                clusters[cname] = m.FunctionCluster(name=cname, storage=st, runner=runner)
            repos.append(m.ConfigurationRepository(name="repo%d" % ri, clusters=clusters))
        return m.Environment(name="verif", base_dir=base, repos=repos)

    def cluster_cfg(cname, spec, pathfn=lambda p: p):
        c = {"name": cname, "storage": storage_cfg(spec, base)}
        for k in ("path", "metadata_path"):
            if k in c["storage"]:
                c["storage"][k] = pathfn(c["storage"][k])
        if spec.get("runner"):
            c["runner"] = {"type": spec["runner"]}
        return c

    if src == "dict":
        cfg = {"name": "verif", "base_dir": base, "repos": [
            {"name": "repo%d" % ri, "clusters": {cn: cluster_cfg(cn, sp) for cn, sp in rs["clusters"].items()}}
            for ri, rs in enumerate(repos_spec)]}
        return m.Environment(cfg)
    if src == "json":
        repo_files = []
        for ri, rs in enumerate(repos_spec):
            clusters = {}
            for cn, sp in rs["clusters"].items():
                cf = os.path.join(base, "repo%d_%s.json" % (ri, cn))
                with open(cf, "w") as f:
                    json.dump(cluster_cfg(cn, sp), f)
                clusters[cn] = os.path.basename(cf) if ri % 2 == 0 else cf   # relative to the repo file / absolute
            rf = os.path.join(base, "repo%d.json" % ri)
            with open(rf, "w") as f:
                json.dump({"name": "repo%d" % ri, "clusters": clusters}, f)
            repo_files.append(rf)
        ef = os.path.join(base, "env.json")
        with open(ef, "w") as f:
            json.dump({"name": "verif", "repos": repo_files}, f)
        m.Environment.set(ef)
        return m.Environment.get()
    if src == "yaml":
        import yaml
        repos = []
        for ri, rs in enumerate(repos_spec):
            doc = {"name": "repo%d" % ri, "clusters": {
                cn: cluster_cfg(cn, sp, pathfn=lambda p: p.replace(base, "{{ base }}")) for cn, sp in rs["clusters"].items()}}
            rf = os.path.join(base, "repo%d.yaml" % ri)
            with open(rf, "w") as f:
                f.write(yaml.safe_dump(doc))
            repos.append(m.ConfigurationRepository.from_file(rf, base=base))
        return m.Environment(name="verif", base_dir=base, repos=repos)
    raise AssertionError(src)


def run_b(case, scratch):
    out = core.Outcome()
    d0 = env.fresh_dir(scratch, "c18b-")
    d = d0
    if case.get("odd_base"):
        # a base directory whose name has characters that mean something to HTML/templating, YAML-safe inside quotes
        d = os.path.join(d0, "R&D <team> 100%")
        os.makedirs(d)
    before = m.Environment.get()
    try:
        problems = []
        try:
            e1 = build_env(case, d)
            envs = [("environment from %s" % case["source"], e1, 0)]
            dump = json.loads(json.dumps(e1.to_dict()))
            envs.append(("environment rebuilt from to_dict()", m.Environment(dump), 1))
            names = sorted({cn for rs in case["repos"] for cn in rs["clusters"]}) + ["no-such-cluster"]
            for label, e, parg in envs:
                for cn in names:
                    winner = next((rs["clusters"][cn] for rs in case["repos"] if cn in rs["clusters"]), None)
                    cl = e.get_cluster(cn)
                    if winner is None:
                        if cl is not None:
                            problems.append(("phantom-cluster", "%s: get_cluster(%r) returned a cluster" % (label, cn)))
                        continue
                    if cl is None:
                        problems.append(("cluster-missing", "%s: get_cluster(%r) is None" % (label, cn)))
                        continue
                    exp = dict(expected_b(winner, d), probe_arg=parg)
                    probe_storage(cl.storage, exp, problems, "%s, cluster %s" % (label, cn))
                    probe_runner(cl, winner.get("runner") or "local", problems, "%s, cluster %s" % (label, cn), d)
        except Exception as e:
            sig = lib_exception_signature(e)
            if sig is None:
                raise
            out.violation("building/probing raised %r" % (e,), symptom="exception", **sig)
        for sym, msg in problems:
            out.violation(msg, symptom=sym, part="B", rebuilt="rebuilt" in msg, source=case["source"])
        nopt = max(sum(1 for k in ("meta", "cache", "readonly", "runner") if sp.get(k) not in (None, False))
                   for rs in case["repos"] for sp in rs["clusters"].values())
        out.nontrivial = nopt >= 2 and case["source"] != "ctor"
        dup = len({cn for rs in case["repos"] for cn in rs["clusters"]}) < sum(len(rs["clusters"]) for rs in case["repos"])
        out.labels = ["B:source:" + case["source"], "B:repos:%d" % len(case["repos"])] + (["B:path-with-special-characters"] if case.get("odd_base") else []) + (["B:duplicate-cluster-names"] if dup else []) + \
            sorted({"B:type:" + sp["type"] for rs in case["repos"] for sp in rs["clusters"].values()})
        return out
    finally:
        m.Environment.set(before)
        env.rm(d0)


# ------------------------------------------------------------------------------------------
# part C: a live environment whose repository list changes between look-ups
# ------------------------------------------------------------------------------------------

C_NAMES = ["c", "d"]


def run_c(case, scratch):
    """case["ops"]: ["resolve", name] | ["prepend", {name: dirtag}] | ["append", {name: dirtag}]; model = list of repositories"""
    out = core.Outcome()
    d = env.fresh_dir(scratch, "c18c-")
    try:
        problems = []
        model = []   # [{cluster name: dirtag}] in priority order
        n = [0]

        def mkrepo(clusters):
            n[0] += 1
            return m.ConfigurationRepository(name="live%d" % n[0], clusters={
                cn: m.FunctionCluster(name=cn, storage=FilesystemStorageBackend(path=os.path.join(d, tag, "data")))
                for cn, tag in clusters.items()})

        def resolve(e, name, label, parg):
            winner = next((r[name] for r in model if name in r), None)
            cl = e.get_cluster(name)
            if winner is None:
                if cl is not None:
                    problems.append(("phantom-cluster", "%s: get_cluster(%r) returned a cluster no repository defines" % (label, name)))
                return
            if cl is None:
                problems.append(("cluster-missing", "%s: get_cluster(%r) is None although a repository defines it" % (label, name)))
                return
            got = os.path.abspath(cl.storage.to_dict().get("path", ""))
            want = os.path.abspath(os.path.join(d, winner, "data"))
            if got != want:
                problems.append(("wrong-repository-wins", "%s: get_cluster(%r) resolves to the cluster stored under %s; first repository in priority order that defines it stores under %s" % (
                    label, name, os.path.relpath(got, d), os.path.relpath(want, d))))
                return
            probe_storage(cl.storage, {"type": "filesystem", "data": want, "meta": want, "cache_mb": None, "readonly": False, "probe_arg": parg},
                          problems, "%s, cluster %s" % (label, name))
        try:
            first = case["initial"]
            model.append(dict(first))
            e = m.Environment(name="verif-live", base_dir=d, repos=[mkrepo(first)])
            for i, op in enumerate(case["ops"]):
                label = "after %r" % (case["ops"][:i + 1],)
                if op[0] == "resolve":
                    resolve(e, op[1], label, i)
                elif op[0] == "prepend":
                    e.prepend_repo(mkrepo(op[1]))
                    model.insert(0, dict(op[1]))
                else:
                    e.append_repo(mkrepo(op[1]))
                    model.append(dict(op[1]))
                if problems:
                    break
            if not problems:
                for name in C_NAMES + ["no-such-cluster"]:
                    resolve(e, name, "at the end of %r" % (case["ops"],), 100)
                e2 = m.Environment(json.loads(json.dumps(e.to_dict())))
                for name in C_NAMES:
                    resolve(e2, name, "environment rebuilt from to_dict() at the end of %r" % (case["ops"],), 101)
        except Exception as ex_:
            sig = lib_exception_signature(ex_)
            if sig is None:
                raise
            out.violation("live environment raised %r" % (ex_,), symptom="exception", **sig)
        for sym, msg in problems:
            out.violation(msg, symptom=sym, part="C", rebuilt="rebuilt" in msg)
        kinds = [op[0] for op in case["ops"]]
        out.nontrivial = any(k in ("prepend", "append") for k in kinds[1:]) and "resolve" in kinds
        out.labels = ["C:live-environment"] + sorted({"C:" + k for k in kinds}) + \
            (["C:resolve-then-prepend-same-name"] if any(kinds[i] == "resolve" and any(o[0] == "prepend" and case["ops"][i][1] in o[1] for o in case["ops"][i + 1:]) for i in range(len(kinds))) else [])
        return out
    finally:
        env.rm(d)


def points_c(max_len):
    """all op sequences up to max_len over: resolve c / resolve d / prepend {c} / prepend {d} / append {c} / append {c,d}"""
    tags = itertools.count()
    alphabet = [("resolve", "c"), ("resolve", "d"), ("prepend", ("c",)), ("prepend", ("d",)), ("append", ("c",)), ("append", ("c", "d"))]
    for initial in (("c",), ("c", "d")):
        for n in range(1, max_len + 1):
            for seq in itertools.product(alphabet, repeat=n):
                if not any(o[0] == "resolve" for o in seq):
                    continue
                k = 0
                ops = []
                for o in seq:
                    if o[0] == "resolve":
                        ops.append(["resolve", o[1]])
                    else:
                        k += 1
                        ops.append([o[0], {cn: "r%d_%s" % (k, cn) for cn in o[1]}])
                yield {"part": "C", "initial": {cn: "r0_%s" % cn for cn in initial}, "ops": ops}


def points_b(thorough):
    specs = []
    for typ, runner, ro, cache, meta in itertools.product(
            ["filesystem", "memory", "null"], [None, "local", "null"], [None, True, False], [None, 0.5, 1, 1.5], [False, True]):
        if typ != "filesystem" and (cache is not None or meta):
            continue
        if typ == "null" and ro:
            continue
        specs.append({"type": typ, "runner": runner, "readonly": ro, "cache": cache, "meta": meta})
    i = 0
    for src in ["ctor", "dict", "json", "yaml"]:
        # single repository, single cluster: the whole option matrix
        for si, sp in enumerate(specs):
            yield {"part": "B", "source": src, "repos": [{"clusters": {"c": dict(sp, dir="r0c")}}]}
            if sp["type"] == "filesystem" and (thorough or si % 5 == 0):
                yield {"part": "B", "source": src, "odd_base": True, "repos": [{"clusters": {"c": dict(sp, dir="r0c")}}]}
        # priority order: 2-3 repositories defining the same names, every order of a few distinguishable specs
        pool = [dict(specs[k % len(specs)], dir="p%d" % k) for k in (3, 17, 40, 58)]
        for n in (2, 3):
            for perm in itertools.permutations(range(len(pool)), n):
                if not thorough and (i := i + 1) % 4:
                    continue
                repos = []
                for ri, k in enumerate(perm):
                    cl = {"c": dict(pool[k], dir="o%d_%d" % (ri, k))}
                    if ri == n - 1:
                        cl["only-last"] = dict(pool[(k + 1) % len(pool)], dir="last%d" % ri)
                    repos.append({"clusters": cl})
                yield {"part": "B", "source": src, "repos": repos}


def execute(case, scratch):
    out = run_a(case, scratch) if case["part"] == "A" else (run_c(case, scratch) if case["part"] == "C" else run_b(case, scratch))
    out.nt_key = case
    return out


def replay(case, ctx):
    return execute(case, ctx.scratch)


def run_shard(ctx):
    stats = core.Stats()
    thorough = ctx.tier == "thorough"
    ex = lambda c: execute(c, ctx.scratch)  # noqa: E731
    pts = list(points_a()) + list(points_b(thorough)) + list(points_c(6 if thorough else 4))
    complete = core.enum_search(pts, ex, stats, findings=ctx.findings, shard=ctx.shard, nshards=ctx.nshards,
                                deadline_s=(ctx.deadline - time.time()) if ctx.deadline else None)
    stats.exhaustive = bool(complete)
    if ctx.shard == 0:
        stats.extra["matrix_points"] = len(pts)
    return stats

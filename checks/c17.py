"""C17 - partitions round-trip key by key and merge as an overlay of their parents."""
import os
import time

from twosigma.memento.partition import Partition

from vlib import core, env, rt, tfuncs, values
from vlib.excs import lib_exception_signature

ID = "C17"
LEVEL = "exploration"
SHARDS = {"quick": 16, "thorough": 16}
RULE = (
    "Hypothesis draws a merge chain of 1-5 partition-returning memento functions: per level a dict str -> supported value (scalars incl. None, lists, dicts, numpy arrays, "
    "pandas objects; keys with generated overlaps between levels), a staging type {InMemoryPartition over a dict, InMemoryPartition over a defaultdict (the module's docstring example), OnDiskPartition, or - above level 0 - pass-through: the function returns, as it is, the partition the level below returned} and the provenance of the parent at the moment the child is computed "
    "{returned by the computing call, read back from disk (cold cache), read back from the memory cache}; backends {filesystem, filesystem+cache, memory}. "
    "Oracle: the overlay computed on plain dicts (own keys win, parent-only keys remain). For the value handed back by the first call, by a second call and by a call after reopening the store: "
    "list_keys() == expected keys (sorted), every get(k) equals the expected value loaded on its own, list_keys(_include_merge_parent=False) == own keys; the body runs once. "
    "Non-trivial = chain length >= 2 with a key present in both parent and child, or a parent obtained from the cache; distinct by (chain shape, provenance, backend)."
    " Race family (round 5): two threads memoizing two different partition-valued functions through one store, every one-preemption schedule (every 3rd yield point in quick) under C09's deterministic scheduler; each call, made again afterwards, must return its own keys and values."
    " Round 6: chain levels optionally published under override keys (mostly one and the same key for several levels)."
)
ASSUMPTIONS = [
    "a merge parent is always a partition returned by a memento function (a never-serialized parent is rejected by design)",
    "values are compared with typed structural equality (vlib/values.py)",
]
MANIFEST = {
    "level": "exploration",
    "technique": "property-based testing with Hypothesis: generated merge chains and parent provenances against a plain-dict overlay model; plus exhaustive one-preemption schedules of two partition writers under a deterministic scheduler",
    "text": "Each generated chain is materialised level by level with controlled parent provenance; every partition handed back (first call, second call, after reopen) is compared key by key with the dict overlay.",
    "note": "Trusts the dict overlay model and typed_equal.",
}


def _store(case, d):
    kind = {"fs": "fs", "fsc": "fs", "mem": "memory"}[case["backend"]]
    return lambda: env.make_backend(kind, os.path.join(d, "store"), cache_mb=1 if case["backend"] == "fsc" else None)


def _check_part(out, part, expected, own, label, level):
    if not isinstance(part, Partition):
        out.violation("%s: level %d returned %r instead of a partition" % (label, level, type(part)), symptom="not-a-partition")
        return
    try:
        keys = list(part.list_keys())
        if keys != sorted(expected):
            out.violation("%s: level %d list_keys() = %r, overlay has %r" % (label, level, keys, sorted(expected)),
                          symptom="keys-differ", missing=bool(set(expected) - set(keys)), extra=bool(set(keys) - set(expected)), kind=type(part).__name__)
            return
        for k in keys:
            got = part.get(k)
            want = values.build(expected[k])
            if not values.typed_equal(got, want):
                out.violation("%s: level %d get(%r) = %r, overlay says %r" % (label, level, k, got, want), symptom="value-differs",
                              kind=type(part).__name__)
                return
        if own is None:   # a partition handed on as it is: only the public key set and values are demanded
            return
        own_keys = list(part.list_keys(_include_merge_parent=False))
        if own_keys != sorted(own):
            out.violation("%s: level %d own keys %r, expected %r" % (label, level, own_keys, sorted(own)), symptom="own-keys-differ",
                          kind=type(part).__name__)
    except Exception as e:
        sig = lib_exception_signature(e)
        if sig is None:
            raise
        out.violation("%s: level %d partition unusable: %r" % (label, level, e), symptom="exception", kind=type(part).__name__, **sig)


RACE_SCN = {"store": "cold", "shape": "partitions", "backend": "fs", "threads": 2}
RACE_WHAT = 'two threads memoizing different partitions through one store'


def execute(case, scratch):
    if case.get("kind") == "race":
        from checks import c09
        return c09.execute_race(case, scratch, RACE_WHAT)
    out = core.Outcome()
    d = env.fresh_dir(scratch, "c17-")
    try:
        levels = case["levels"]
        rt.PART_LEVELS[:] = levels
        mk = _store(case, d)
        env.set_env(d, {"c": mk()})
        rt.take()
        overlay = {}
        cached_parent = False
        overlap = False
        for i, lv in enumerate(levels):
            if i > 0:
                overlap = overlap or bool(set(lv["own"]) & set(overlay))
                prov = lv["parent_from"]
                if prov == "first-call":
                    try:
                        tfuncs.PARTS[i - 1].forget()
                    except Exception as e:
                        sig = lib_exception_signature(e)
                        if sig is None:
                            raise
                        out.violation("forget raised %r" % (e,), symptom="exception", **sig)
                elif prov == "disk" and case["backend"] != "mem":
                    env.set_env(d, {"c": mk()})
                elif prov == "cache" and case["backend"] == "fsc":
                    cached_parent = True
            overlay = dict(overlay)
            passthrough = lv["staging"] == "passthrough" and i > 0
            if not passthrough:
                overlay.update(lv["own"])
            own_i = None if passthrough else lv["own"]
            fn = tfuncs.PARTS[i]
            rt.take()
            try:
                v1 = fn()
                runs1 = [r for r in rt.take() if r[0] == "p%d" % i]
                v2 = fn()
                runs2 = [r for r in rt.take() if r[0] == "p%d" % i]
            except Exception as e:
                sig = lib_exception_signature(e)
                if sig is None:
                    raise
                out.violation("level %d call raised %r" % (i, e), symptom="exception", **sig)
                break
            if len(runs1) != 1 or runs2:
                out.violation("level %d (%s, parent from %s): body ran %d times on the first call and %d times on the second" % (
                    i, lv["staging"], lv.get("parent_from"), len(runs1), len(runs2)), symptom="runs", staging=lv["staging"],
                    parent_from=lv.get("parent_from"))
            _check_part(out, v1, overlay, own_i, "first call", i)
            _check_part(out, v2, overlay, own_i, "second call", i)
            if case["backend"] != "mem" and lv.get("reopen_check", True):
                env.set_env(d, {"c": mk()})
                try:
                    v3 = fn()
                except Exception as e:
                    sig = lib_exception_signature(e)
                    if sig is None:
                        raise
                    out.violation("level %d call after reopen raised %r" % (i, e), symptom="exception", **sig)
                    break
                if [r for r in rt.take() if r[0] == "p%d" % i]:
                    out.violation("level %d: body ran again after reopening the store" % i, symptom="runs-after-reopen")
                _check_part(out, v3, overlay, own_i, "after reopen", i)
                _check_part(out, v1, overlay, own_i, "first-call value, later", i)
            if out.violations:
                break
        out.nontrivial = (len(levels) >= 2 and overlap) or cached_parent
        out.labels = ["backend:" + case["backend"], "chain:%d" % len(levels)] + \
            ["prov:" + lv["parent_from"] for lv in levels[1:]] + sorted({"staging:" + lv["staging"] for lv in levels}) + \
            (["overlap"] if overlap else []) + \
            (["published-under-override-key"] if any(lv.get("publish") for lv in levels) else []) + \
            (["two-levels-under-one-override-key"] if len([lv for lv in levels if lv.get("publish") == "pub/ds"]) >= 2 else [])
        out.nt_key = [[(lv["staging"], lv.get("parent_from"), sorted(lv["own"]), lv.get("reopen_check", True), lv.get("publish")) for lv in levels], case["backend"]]
        return out
    finally:
        rt.PART_LEVELS[:] = []
        env.rm(d)


def replay(case, ctx):
    return execute(case, ctx.scratch)


def strategy():
    from hypothesis import strategies as st
    S = values.strategies()
    keys = st.sampled_from(["a", "b", "c", "d", "k é", "x.y"])
    val = st.one_of(S.scalar, S.scalar, S.nd(), S.series(), S.frame(),
                    st.lists(S.scalar, max_size=3).map(lambda v: {"t": "list", "v": v}))

    @st.composite
    def case(draw):
        n = draw(st.sampled_from([1, 2, 2, 3, 3, 4, 5]))
        pub = draw(st.integers(0, 3)) == 0   # levels published under override keys, mostly one and the same
        levels = []
        for i in range(n):
            lv = {"staging": draw(st.sampled_from(["impart", "impart", "impart_dd", "odpart"] + (["passthrough"] if i > 0 else []))),
                  "own": draw(st.dictionaries(keys, val, max_size=3)),
                  "reopen_check": draw(st.sampled_from([True, False]))}
            if pub and lv["staging"] != "passthrough":
                lv["publish"] = draw(st.sampled_from(["pub/ds", "pub/ds", "pub/other"]))
            if i > 0:
                lv["parent_from"] = draw(st.sampled_from(["first-call", "disk", "cache", "cache"]))
            levels.append(lv)
        return {"levels": levels, "backend": draw(st.sampled_from(["fs", "fsc", "fsc", "mem"]))}

    return case()


def run_shard(ctx):
    stats = core.Stats()
    # race family: every one-preemption interleaving (every 3rd yield point in quick) under C09's deterministic scheduler
    from checks import c09
    core.enum_search(c09.race_family(RACE_SCN, ctx.scratch, 1 if ctx.tier == "thorough" else 3), lambda c: execute(c, ctx.scratch), stats,
                     findings=ctx.findings, shard=ctx.shard, nshards=ctx.nshards,
                     deadline_s=max((ctx.deadline - time.time()) * 0.35, 5) if ctx.deadline else None)
    core.hyp_search(strategy(), lambda c: execute(c, ctx.scratch), stats, max_examples=15000 if ctx.tier == "thorough" else 300,
                    seed=core.hash64(ctx.seed, ID, ctx.shard), findings=ctx.findings,
                    deadline_s=(ctx.deadline - time.time()) if ctx.deadline else None)
    return stats

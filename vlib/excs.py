"""Classify an exception: raised from inside the library under test, or from the harness?"""
import os
import traceback

REPO_MARK = os.sep + os.path.join("twosigma", "memento") + os.sep
VERIF_ROOT = os.path.dirname(os.path.dirname(os.path.abspath(__file__)))


def innermost_frames(e):
    tb = traceback.extract_tb(e.__traceback__)
    return tb


def lib_exception_signature(e):
    """
    If the innermost frame that belongs to either the library or the harness is a library
    frame, return a signature {"exc": type name, "where": "file:function"}; if it is a harness
    frame return None (harness bug: let it propagate).
    """
    tb = traceback.extract_tb(e.__traceback__)
    for fr in reversed(tb):
        fn = fr.filename
        if REPO_MARK in fn:
            return {"exc": type(e).__name__, "where": "%s:%s" % (os.path.basename(fn), fr.name)}
        if fn.startswith(VERIF_ROOT + os.sep):
            # deepest interesting frame is ours: was it merely the call site into the library?
            # (then a library frame would have been found first). So: harness.
            return None
    return None

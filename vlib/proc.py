"""E1 process harness: run a function in a forked child ('fresh process' for everything memento keeps in memory)."""
import json
import os
import signal
import sys
import traceback

from .core import HarnessError


def forkrun(fn, *args, env=None, timeout=120, crash_code=None):
    """Run fn(*args) in a forked child, return its JSON-serialisable result."""
    r, w = os.pipe()
    sys.stdout.flush()
    sys.stderr.flush()
    pid = os.fork()
    if pid == 0:
        code = 0
        try:
            os.close(r)
            if env:
                os.environ.update(env)
            try:
                res = {"ok": fn(*args)}
            except BaseException as e:  # noqa
                res = {"error": "".join(traceback.format_exception(type(e), e, e.__traceback__))[-6000:]}
            data = json.dumps(res, default=str).encode("utf-8")
            with os.fdopen(w, "wb") as f:
                f.write(data)
        except BaseException:
            code = 3
        finally:
            os._exit(code)
    os.close(w)
    chunks = []
    with os.fdopen(r, "rb") as f:
        def _alarm(signum, frame):
            raise TimeoutError()
        old = signal.signal(signal.SIGALRM, _alarm)
        signal.alarm(timeout)
        try:
            while True:
                b = f.read(65536)
                if not b:
                    break
                chunks.append(b)
        except TimeoutError:
            os.kill(pid, signal.SIGKILL)
            os.waitpid(pid, 0)
            raise HarnessError("forked child exceeded %ds" % timeout)
        finally:
            signal.alarm(0)
            signal.signal(signal.SIGALRM, old)
    _, status = os.waitpid(pid, 0)
    data = b"".join(chunks)
    if not data and crash_code is not None and os.WIFEXITED(status) and os.WEXITSTATUS(status) == crash_code:
        return {"crashed": True}
    if not data:
        raise HarnessError("forked child died without a result (status %r)" % (status,))
    res = json.loads(data.decode("utf-8"))
    if "error" in res:
        raise HarnessError("error in forked child:\n" + res["error"])
    return res["ok"]

"""Scratch directories and memento environments for the checks."""
import itertools
import os
import shutil
import tempfile

import twosigma.memento as m
from twosigma.memento.storage_filesystem import FilesystemStorageBackend
from twosigma.memento.storage_memory import MemoryStorageBackend

_counter = itertools.count()


def fresh_dir(scratch, prefix="d"):
    p = os.path.join(scratch, "%s%d" % (prefix, next(_counter)))
    os.makedirs(p)
    return p


def rm(path):
    shutil.rmtree(path, ignore_errors=True)


def make_backend(kind, path, cache_mb=None, metadata_path=None, read_only=None):
    if kind == "memory":
        return MemoryStorageBackend(read_only=read_only)
    return FilesystemStorageBackend(path=path, metadata_path=metadata_path,
                                    memory_cache_mb=cache_mb, read_only=read_only)


def set_env(base_dir, clusters, name="verif"):
    """clusters: {name: storage backend or FunctionCluster}. Returns the Environment."""
    cl = {}
    for k, v in clusters.items():
        cl[k] = v if isinstance(v, m.FunctionCluster) else m.FunctionCluster(name=k, storage=v)
    env = m.Environment(name=name, base_dir=base_dir,
                        repos=[m.ConfigurationRepository(name="repo", clusters=cl)])
    m.Environment.set(env)
    return env

"""Harness memento functions with assorted signatures (C04, C11, C15, C16) and a side channel."""
import twosigma.memento as m
from vlib import rt


@m.memento_function(cluster="c", version="1")
def g1(a):
    return rt.rec("g1", locals())


@m.memento_function(cluster="c", version="1")
def g2(a, b):
    return rt.rec("g2", locals())


@m.memento_function(cluster="c", version="1")
def g3(a, b=5, c=None):
    return rt.rec("g3", locals())


@m.memento_function(cluster="c", version="1")
def g4(a, *, k, k2=1):
    return rt.rec("g4", locals())


@m.memento_function(cluster="c", version="1")
def g5(a, b=0, **kw):
    return rt.rec("g5", dict(a=a, b=b, **kw))


@m.memento_function(cluster="c", version="1")
def g6(a=1, b=2, c=3, d=4, e=5):
    return rt.rec("g6", locals())


@m.memento_function(cluster="c", version="1")
def g7(**kw):
    return rt.rec("g7", dict(kw))


# functions used as *argument values*
@m.memento_function(cluster="c", version="1")
def h1(a=None, b=None, c=None):
    return 1


@m.memento_function(version="7")
def h2(x, y=2):
    return 2


# a caller whose body performs a table-driven nested call (explicit version: no dependency validation)
@m.memento_function(cluster="c", version="1")
def nest(k):
    return rt.produce("nest", k)


@m.memento_function(cluster="c", version="1")
def nest2(k):
    return rt.produce("nest2", k)


SIGS = {
    # name: (positional-or-keyword params in order, keyword-only params, required, accepts **kw)
    "g1": (["a"], [], ["a"], False),
    "g2": (["a", "b"], [], ["a", "b"], False),
    "g3": (["a", "b", "c"], [], ["a"], False),
    "g4": (["a"], ["k", "k2"], ["a", "k"], False),
    "g5": (["a", "b"], [], ["a"], True),
    "g6": (["a", "b", "c", "d", "e"], [], [], False),
    "g7": ([], [], [], True),
}
FUNCS = {"g1": g1, "g2": g2, "g3": g3, "g4": g4, "g5": g5, "g6": g6, "g7": g7, "h1": h1, "h2": h2}

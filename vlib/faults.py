"""
E3 fault controller (child side): counts the mutating filesystem operations issued under a
root through the audit hook and, at the n-th one, kills the process or reports an I/O error -
before the operation, right after it, or in the middle of the write that follows an open.
"""
import builtins
import errno
import io
import os

from . import fsaudit

CRASH_CODE = 17


class _Proxy:
    """File object that stops after k bytes (crash or ENOSPC), or fails when it is closed."""

    def __init__(self, f, variant, k):
        self._f, self._variant, self._k, self._n = f, variant, k, 0
        self._buf = []

    def write(self, data):
        if self._variant in ("crash-empty", "crash-partial", "err-write"):
            raw = data
            if self._k is None:
                self._k = len(raw) // 2     # "half of the bytes" of the first write
            room = max(self._k - self._n, 0) if self._variant != "crash-empty" else 0
            part = raw[:room]
            if part:
                self._f.write(part)
                self._n += len(part)
            if True:
                try:
                    self._f.flush()
                except Exception:
                    pass
                if self._variant.startswith("crash"):
                    os._exit(CRASH_CODE)
                v, self._variant = self._variant, "done"
                raise OSError(errno.ENOSPC, "No space left on device (injected)")
            return len(raw)
        if self._variant == "err-close":
            self._buf.append(data)
            return len(data)
        return self._f.write(data)

    def _finish(self):
        if self._variant == "err-close":
            self._variant = "done"
            data = (b"" if isinstance(self._buf[0], bytes) else "").join(self._buf) if self._buf else b""
            try:
                if data:
                    self._f.write(data[: (len(data) // 2 if self._k is None else self._k)])
            finally:
                self._f.close()
            raise OSError(errno.ENOSPC, "No space left on device (injected at close)")
        self._f.close()

    def close(self):
        self._finish()

    def flush(self):
        if self._variant != "err-close":
            self._f.flush()

    def __enter__(self):
        return self

    def __exit__(self, et, ev, tb):
        if et is None:
            self._finish()
        else:
            self._f.close()
        return False

    def __getattr__(self, name):
        return getattr(self._f, name)


class Controller:
    def __init__(self, root, plan):
        self.root = os.path.abspath(root)
        self.plan = plan          # None | {"event": n, "variant": ..., "k": int}
        self.count = 0
        self.events = []
        self.pending_open = None
        self.after = False
        self.fired = False
        self.watch = fsaudit.Watch(self.root, fault=self._on_event)
        self._orig = {}

    def _on_event(self, ev, w):
        if not ev["mutating"]:
            return
        idx = self.count
        self.count += 1
        self.events.append({"i": idx, "event": ev["event"], "rel": os.path.relpath(ev["path"], self.root)})
        p = self.plan
        if p is None or self.fired or idx != p["event"]:
            return
        self.fired = True
        v = p["variant"]
        if v == "crash-before":
            os._exit(CRASH_CODE)
        if v == "err-before":
            raise OSError(errno.ENOSPC, "No space left on device (injected)")
        if v == "crash-after":
            self.after = True
        if v in ("crash-empty", "crash-partial", "err-write", "err-close") and ev["event"] == "open":
            self.pending_open = (v, p.get("k", 0))

    def _wrap_open(self, real):
        def opener(*a, **k):
            f = real(*a, **k)
            if self.pending_open is not None:
                v, kk = self.pending_open
                self.pending_open = None
                return _Proxy(f, v, kk)
            if self.after:
                os._exit(CRASH_CODE)
            return f
        return opener

    def _wrap_after(self, real):
        def fn(*a, **k):
            r = real(*a, **k)
            if self.after:
                os._exit(CRASH_CODE)
            return r
        return fn

    def __enter__(self):
        self._orig = {"bopen": builtins.open, "ioopen": io.open}
        builtins.open = self._wrap_open(builtins.open)
        io.open = self._wrap_open(io.open)
        for name in ("replace", "rename", "mkdir", "remove", "unlink", "rmdir"):
            self._orig[name] = getattr(os, name)
            setattr(os, name, self._wrap_after(getattr(os, name)))
        self.watch.__enter__()
        return self

    def __exit__(self, *exc):
        self.watch.__exit__(*exc)
        builtins.open = self._orig["bopen"]
        io.open = self._orig["ioopen"]
        for name in ("replace", "rename", "mkdir", "remove", "unlink", "rmdir"):
            setattr(os, name, self._orig[name])
        return False

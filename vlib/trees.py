"""
Call-tree engine for C10 / C16: seven harness memento functions t0..t6 whose bodies interpret a
generated program (rt-side table, not a tracked global) and log what they actually did.

program = {"nodes": {"t0": [action...], ...}}; node ti may only call tj with j > i (finite DAG).
action:
  {"a":"call","fn":"t3","d":1,"ctx":None|{...},"catch":true}   callee arg = x + d
  {"a":"batch","fn":"t3","ds":[0,1,0]}                           call_batch over x+d for d in ds (slots, no raise)
  {"a":"file","name":"r1"}                                       file_resource on a scratch file
  {"a":"res","url":"u"}                                          custom resource function
  {"a":"raise"}                                                  body raises ValueError (after what it did so far)
  {"a":"pause"}                                                  harness hook (another thread makes an unrelated call meanwhile)
any action may carry "when": "even"|"odd"|"pos" (performed only if x is even / odd / positive); a node may call itself
with d = -1 when "pos" (recursion that ends at x <= 0).
Every node returns x + sum of successful sub-results.
"""
import os

import twosigma.memento as m
from twosigma.memento.resource import ResourceHandle
from twosigma.memento.resource_function import resource_function, file_resource

from vlib import rt

STATE = {"program": None, "files": None, "trace": []}


@resource_function(resource_type="verif")
def vres(url):
    return ResourceHandle("verif", url, "v-" + url)


def lookalike(v):
    """a value that Python compares equal to v but that is another argument for memento (1 / True / 1.0, 0 / False / 0.0)"""
    if isinstance(v, bool):
        return int(v)
    if isinstance(v, int):
        return bool(v) if v in (0, 1) else float(v)
    if isinstance(v, float) and v == int(v):
        return int(v)
    if isinstance(v, list):
        return [lookalike(x) for x in v]
    if isinstance(v, dict):
        return {k: lookalike(x) for k, x in v.items()}
    return v


def attach(f, ctx, twice=False):
    """f with context arguments ctx; `twice`: a look-alike dictionary is attached first and then replaced by the real one"""
    if twice:
        f = f.with_context_args(lookalike(dict(ctx)))
    return f.with_context_args(dict(ctx))


def _run(name, x, extra_kwargs):
    prog = STATE["program"]
    rec = {"node": name, "x": x, "kwargs": sorted(extra_kwargs), "calls": [], "resources": []}
    STATE["trace"].append(rec)
    total = x
    for act in prog["nodes"].get(name, []):
        kind = act["a"]
        # an action may depend on the argument: the same function version then reaches different functions for different calls
        when = act.get("when")
        if (when == "even" and x % 2 != 0) or (when == "odd" and x % 2 != 1) or (when == "pos" and x <= 0):
            continue
        if kind == "call":
            callee = FUNCS[act["fn"]]
            arg = x + act.get("d", 0)
            f = callee
            if act.get("ctx") is not None:
                f = attach(f, act["ctx"], STATE.get("attach_twice"))
            if act.get("prevent"):
                f = f.with_prevent_further_calls(True)
            entry = {"fn": act["fn"], "arg": arg, "ctx": act.get("ctx"), "outcome": None}
            rec["calls"].append(entry)
            try:
                r = f(arg)
                entry["outcome"] = "ok"
                total += r if isinstance(r, int) else 0
            except Exception as e:  # noqa
                entry["outcome"] = "exc:" + type(e).__name__
                if not act.get("catch", True):
                    raise
        elif kind == "batch":
            callee = FUNCS[act["fn"]]
            args = [x + d for d in act["ds"]]
            for a_ in args:
                rec["calls"].append({"fn": act["fn"], "arg": a_, "ctx": None, "outcome": "batch"})
            res = callee.call_batch([{"x": a_} for a_ in args], raise_first_exception=False)
            total += sum(r for r in res if isinstance(r, int))
        elif kind == "file":
            h = file_resource(os.path.join(STATE["files"], act["name"]))
            rec["resources"].append(("file", h.url, h.version))
        elif kind == "res":
            h = vres(act["url"])
            rec["resources"].append(("verif", h.url, h.version))
        elif kind == "pause":
            # the harness may use this point to let ANOTHER thread make an unrelated top-level memento call while
            # this body is still running (that call is not made by this body)
            hook = STATE.get("pause_hook")
            if hook is not None:
                hook()
        elif kind == "raise":
            raise ValueError("node %s fails at x=%s" % (name, x))
    return total


@m.memento_function(cluster="c", version="1")
def tx(x):
    """unrelated function called from another thread during a pause"""
    return x


@m.memento_function(cluster="c", version="1")
def t0(x, **kw):
    return _run("t0", x, kw)


@m.memento_function(cluster="c", version="1")
def t1(x):
    return _run("t1", x, {})


@m.memento_function(cluster="c", version="1")
def t2(x, **kw):
    return _run("t2", x, kw)


@m.memento_function(cluster="c", version="1")
def t3(x):
    return _run("t3", x, {})


@m.memento_function(cluster="c", version="1")
def t4(x, **kw):
    return _run("t4", x, kw)


@m.memento_function(cluster="c", version="1")
def t5(x):
    return _run("t5", x, {})


@m.memento_function(cluster="c", version="1")
def t6(x, **kw):
    return _run("t6", x, kw)


FUNCS = {"t0": t0, "t1": t1, "t2": t2, "t3": t3, "t4": t4, "t5": t5, "t6": t6}
NAMES = sorted(FUNCS)


def begin(program, files_dir):
    STATE["program"] = program
    STATE["files"] = files_dir
    STATE["trace"] = []


def take_trace():
    t = STATE["trace"]
    STATE["trace"] = []
    return t


def program_strategy(with_ctx=False, max_nodes=7, argdep=False):
    from hypothesis import strategies as st

    ctxs = st.one_of(st.none(), st.none(), st.just({}),
                     st.dictionaries(st.sampled_from(["tenant", "asof"]), st.sampled_from(["a", "b", 1]), min_size=1, max_size=2),
                     st.dictionaries(st.sampled_from(["tenant", "asof", "k \u00e9"]), st.sampled_from(["a", 1, True, 2.5, [1, 2], {"n": 1}, "\udce9"]), min_size=1, max_size=3))

    @st.composite
    def prog(draw):
        n = draw(st.integers(2, max_nodes))
        nodes = {}
        for i in range(n):
            acts = []
            lower = ["t%d" % j for j in range(i + 1, n)]
            for _ in range(draw(st.integers(0, 4 if i < 2 else 2))):
                kinds = (["call"] * 5 + ["batch", "batch"] if lower else []) + ["file", "res"]
                kind = draw(st.sampled_from(kinds))
                if kind == "call":
                    a = {"a": "call", "fn": draw(st.sampled_from(lower)), "d": draw(st.sampled_from([0, 0, 1])),
                         "catch": draw(st.sampled_from([True, True, False]))}
                    if with_ctx:
                        a["ctx"] = draw(ctxs)
                    acts.append(a)
                elif kind == "batch":
                    acts.append({"a": "batch", "fn": draw(st.sampled_from(lower)),
                                 "ds": draw(st.lists(st.sampled_from([0, 1, 0]), min_size=1, max_size=3))})
                elif kind == "file":
                    acts.append({"a": "file", "name": draw(st.sampled_from(["r1", "r2", "missing", "q3%20report"]))})
                else:
                    acts.append({"a": "res", "url": draw(st.sampled_from(["u1", "u2"]))})
            if argdep:
                for a in acts:
                    w = draw(st.sampled_from([None, None, None, "even", "odd"]))
                    if w:
                        a["when"] = w
                if draw(st.integers(0, 4)) == 0:
                    acts.insert(draw(st.integers(0, len(acts))), {"a": "pause"})
                if draw(st.integers(0, 5)) == 0:
                    # self-recursion, placed anywhere among the actions
                    acts.insert(draw(st.integers(0, len(acts))), {"a": "call", "fn": "t%d" % i, "d": -1, "catch": True, "when": "pos"})
            if i > 0 and draw(st.integers(0, 5)) == 0:
                acts.append({"a": "raise"})
            nodes["t%d" % i] = acts
        return {"nodes": nodes}

    return prog()

"""
E1 - generated programs: model (JSON), renderer (module files and notebook-style cells), edit
operators, static reference graph. See DESIGN.md section 3 (E1).

program = {"pkg": str, "modules": ["a"] | ["a","b"], "defs": [def, ...]}   (defs in definition order)
def     = {"k":"var","mod","name","vtype":"int|list|dict|str","value"}
        | {"k":"fn","mod","name","memento":bool,"version":None|str,"cluster":None|"c",
           "pdef":None|int,"kwdef":None|int,"fdef":None|name (parameter fn=<that function>, evaluated at definition time),
           "base":expr,"body":expr}
        | {"k":"alias","mod","name","target"} | {"k":"wrapper","mod","name","target"}
expr    = {"e":"lit","v"} {"e":"x"} {"e":"pk"} {"e":"pkw"} {"e":"pfn"} (calls the default-parameter function) {"e":"glob","n"} {"e":"add","a","b"} {"e":"mul","a","b"}
        | {"e":"inset","x","s":[...]} {"e":"tupidx","t":[...],"i"} {"e":"lam","c","x"} {"e":"inner","c","d","x"}
        | {"e":"comp","c","x"} {"e":"call","f"} {"e":"hidden","f","via":"globals|sysmod"}
Every call passes x-1; every function returns `base` when x <= 0, so execution is finite.
"""
import copy
import json


def find(prog, name):
    for d in prog["defs"]:
        if d["name"] == name:
            return d
    raise KeyError(name)


def fns(prog):
    return [d for d in prog["defs"] if d["k"] == "fn"]


def callables(prog):
    return [d for d in prog["defs"] if d["k"] in ("fn", "alias", "wrapper")]


def resolve_fn(prog, name):
    """Follow alias/wrapper to the underlying fn def."""
    d = find(prog, name)
    seen = 0
    while d["k"] in ("alias", "wrapper") and seen < 10:
        d = find(prog, d["target"])
        seen += 1
    return d


def walk(expr):
    yield expr
    for k in ("a", "b", "x", "i"):
        if isinstance(expr.get(k), dict):
            for e in walk(expr[k]):
                yield e


def exprs_of(fn):
    return list(walk(fn["base"])) + list(walk(fn["body"]))


# ------------------------------------------------------------------------------------------
# rendering
# ------------------------------------------------------------------------------------------

def _lit(v):
    return repr(v)


INIT = "__init__"   # module name standing for the package's own __init__.py


def rn(d):
    """the name a definition has in its module's source (two definitions in different modules may share it: 'twins')"""
    return d.get("rname") or d["name"]


def modname(prog, mod):
    """dotted name under which module `mod` of the generated package is importable"""
    return prog["pkg"] if mod == INIT else "%s.%s" % (prog["pkg"], mod)


# names that are also names of builtins (none of them is used by the generated text itself), and paddings that make the
# qualified name of a function longer than 140 / 160 / 200 characters (file names may have 255)
BUILTIN_NAMES = ["filter", "format", "input", "vars", "oct", "bin", "ascii", "hash", "id", "pow", "divmod", "license"]
LONG_PADS = [125, 150, 190]


def rename_defs(prog, mapping):
    """the same program with some definitions renamed (every reference follows); mapping: old name -> new name"""
    def w(o):
        if isinstance(o, dict):
            return {k: w(v) for k, v in o.items()}
        if isinstance(o, list):
            return [w(v) for v in o]
        if isinstance(o, str) and o in mapping:
            return mapping[o]
        return o
    out = w(prog)
    out["renamed"] = dict(prog.get("renamed") or {}, **{v: k for k, v in mapping.items()})
    return out


def _ref(prog, cur_mod, name):
    d = find(prog, name)
    if d["mod"] == cur_mod:
        return rn(d)
    # definitions in the package's __init__.py are reached through the package object itself
    return "%s.%s" % (prog["pkg"] if d["mod"] == INIT else d["mod"], rn(d))


def _rexpr(prog, fn, e, inners):
    t = e["e"]
    mod = fn["mod"]
    if t == "lit":
        return _lit(e["v"])
    if t == "x":
        return "x"
    if t == "pk":
        return "k" if fn.get("pdef") is not None else "0"
    if t == "pkw":
        return "kw" if fn.get("kwdef") is not None else "0"
    if t == "pg":
        # the parameter whose default is a module-level list / dict (the very object the variable names)
        if not fn.get("gdef"):
            return "0"
        return {"list": "sum(g)", "dict": "g[\"k\"]"}[find(prog, fn["gdef"])["vtype"]]
    if t == "pfn":
        return "fn(x - 1)" if fn.get("fdef") else "0"
    if t == "glob":
        g = find(prog, e["n"])
        r = _ref(prog, mod, e["n"])
        val = {"int": r, "list": "sum(%s)" % r, "dict": "%s[\"k\"]" % r, "str": "len(%s)" % r,
               "dictset": "sum(%s.values())" % r, "mixset": "len(%s)" % r, "tuplist": "(%s[0] + sum(%s[1]))" % (r, r)}[g["vtype"]]
        # the reference may sit in a nested scope of the function (its text is part of the function all the same)
        form = e.get("form")
        if form == "lambda":
            return "(lambda: %s)()" % val
        if form == "inner":
            nm = "_in%d" % len(inners)
            inners.append("    def %s():\n        return %s\n" % (nm, val))
            return "%s()" % nm
        if form == "compr":
            return "[%s for _verif_i in (0,)][0]" % val
        if form == "localnamed" and "." in r:
            # a local variable of the function is named like the last component of the dotted reference (`G1 = mod.G1`)
            return "(((%s := %s) is None) + %s)" % (rn(g), r, val)
        if form == "shadowed" and r == rn(g):
            # another nested function has a PARAMETER of the same name (a local there), next to the real global reference
            nm = "_in%d" % len(inners)
            inners.append("    def %s(%s):\n        return %s\n" % (nm, r, r))
            return "(%s(0) + %s)" % (nm, val)
        return val
    if t in ("add", "mul"):
        return "(%s %s %s)" % (_rexpr(prog, fn, e["a"], inners), "+" if t == "add" else "*", _rexpr(prog, fn, e["b"], inners))
    if t == "inset":
        return "(1 if %s in {%s} else 0)" % (_rexpr(prog, fn, e["x"], inners), ", ".join(_lit(v) for v in e["s"]))
    if t == "tupidx":
        return "(%s)[%s %% %d]" % (", ".join(_lit(v) for v in e["t"]) + ",", _rexpr(prog, fn, e["i"], inners), len(e["t"]))
    if t == "lam":
        return "(lambda t: t + %s)(%s)" % (_lit(e["c"]), _rexpr(prog, fn, e["x"], inners))
    if t == "inner":
        nm = "_in%d" % len(inners)
        inners.append("    def %s(t, q=%s):\n        return t * %s + q\n" % (nm, _lit(e["d"]), _lit(e["c"])))
        return "%s(%s)" % (nm, _rexpr(prog, fn, e["x"], inners))
    if t == "comp":
        inner = _rexpr(prog, fn, e["x"], inners)
        if ":=" in inner:
            # (an assignment expression may not sit in the iterable of a comprehension: evaluate it first)
            return "(lambda n_: sum([t * %s for t in range(n_ %% 4)]))(%s)" % (_lit(e["c"]), inner)
        return "sum([t * %s for t in range(%s %% 4)])" % (_lit(e["c"]), inner)
    if t == "call":
        if e.get("form") == "attrchain":
            # the reference sits in the argument list of a call inside an attribute chain
            return "int(str(%s(x - 1)).strip())" % _ref(prog, mod, e["f"])
        if e.get("form") == "clone":
            # the callee is a modifier clone (force_local()) of the referenced function; verif_rt.fl is the
            # identity for plain functions, so the un-memoized reference runs the same text
            return "verif_rt.fl(%s)(x - 1)" % _ref(prog, mod, e["f"])
        ref = _ref(prog, mod, e["f"])
        if e.get("form") == "lambda":
            return "(lambda t: %s(t))(x - 1)" % ref
        if e.get("form") == "inner":
            nm = "_in%d" % len(inners)
            inners.append("    def %s(t):\n        return %s(t)\n" % (nm, ref))
            return "%s(x - 1)" % nm
        if e.get("form") == "genexp":
            return "sum(%s(t) for t in (x - 1,))" % ref
        if e.get("form") == "localnamed" and "." in ref:
            # the result is kept in a local variable named like the function (`scale = rates.scale(x)`)
            return "(%s := %s(x - 1))" % (ref.rsplit(".", 1)[1], ref)
        return "%s(x - 1)" % ref
    if t == "hidden":
        d = find(prog, e["f"])
        if e["via"] == "globals" and d["mod"] == mod:
            return "globals()[%r](x - 1)" % e["f"]
        look = "getattr(sys.modules[%r], %r)" % (modname(prog, d["mod"]), e["f"])
        if e["via"] == "clone":
            return "verif_rt.fl(%s)(x - 1)" % look
        return "%s(x - 1)" % look
    raise ValueError(t)


def render_def(prog, d):
    """Source text of one top-level definition (also used as a notebook cell)."""
    if d["k"] == "var":
        if d["vtype"] == "dictset":
            # a dict whose insertion order follows the iteration order of a set of strings (hash-seed dependent);
            # its *value* (dict equality) is the same in every process
            return "%s = {k_: len(k_) for k_ in {%s}}\n" % (rn(d), ", ".join(_lit(v) for v in d["value"]))
        if d["vtype"] == "mixset":
            # a set whose members have different types ('missing value markers'); its iteration order depends on the hash seed
            return "%s = {%s}\n" % (rn(d), ", ".join(_lit(v) for v in d["value"]))
        if d["vtype"] == "tuplist":
            # a tuple (hashable object) holding a list that can be mutated in place
            return "%s = (%s, %s)\n" % (rn(d), _lit(d["value"]["a"]), _lit(d["value"]["l"]))
        return "%s = %s\n" % (rn(d), _lit(d["value"]))
    if d["k"] == "alias":
        if d.get("form") == "clone":
            # a module-level modifier clone of a memento function (the identity for the un-memoized reference)
            return "%s = verif_rt.fl(%s)\n" % (rn(d), _ref(prog, d["mod"], d["target"]))
        return "%s = %s\n" % (rn(d), _ref(prog, d["mod"], d["target"]))
    if d["k"] == "wrapper":
        return "%s = _verif_wrap(%s)\n" % (d["name"], d["target"])
    if d["k"] == "mut":
        # a module-level statement that updates a list / dict variable in place while the module is being executed
        # (plug-in style registration); at most one per variable, so the final value does not depend on its position
        tv = find(prog, d["target"])
        if tv["vtype"] == "list":
            return "%s.append(%r)\n" % (rn(tv), d["delta"])
        if tv["vtype"] == "tuplist":
            return "%s[1].append(%r)\n" % (rn(tv), d["delta"])
        return "%s[%r] = %r\n" % (rn(tv), "m", d["delta"])
    if d["k"] == "query":
        # a module-level statement that asks a memento function for its version while the module is still being
        # executed (as `g = f.force_local()` or a call at import time would); None under the identity decorator
        return "%s = verif_rt.ver(%s)\n" % (d["name"], d["target"])
    if d.get("lam"):
        # a plain helper written as a module-level lambda (its __qualname__ is '<lambda>', whatever name it is bound to)
        return "%s = lambda x: (%s if x <= 0 else %s)\n" % (rn(d), _rexpr(prog, d, d["base"], []), _rexpr(prog, d, d["body"], []))
    lines = []
    if d["memento"]:
        args = []
        if d.get("cluster"):
            args.append("cluster=%r" % d["cluster"])
        if d.get("version") is not None:
            args.append("version=%r" % d["version"])
        if d.get("declared"):
            # dependencies declared by (dotted) name: calls to them are legal although the body reaches them dynamically
            def dep_name(n):
                if d.get("declared_q"):
                    # memento's own qualified name of the function: [cluster::]module:function
                    t = find(prog, n)
                    return ("%s::" % t["cluster"] if t.get("cluster") else "") + modname(prog, t["mod"]) + ":" + rn(t)
                return _ref(prog, d["mod"], n)
            args.append("dependencies=[%s]" % ", ".join(repr(dep_name(n)) for n in d["declared"]))
        lines.append("@mf(%s)\n" % ", ".join(args) if args else "@mf\n")
    params = "x"
    if d.get("pdef") is not None:
        params += ", k=%s" % _lit(d["pdef"])
    if d.get("gdef"):
        params += ", g=%s" % _ref(prog, d["mod"], d["gdef"])
    if d.get("fdef"):
        params += ", fn=%s" % _ref(prog, d["mod"], d["fdef"])
    if d.get("kwdef") is not None:
        params += ", *, kw=%s" % _lit(d["kwdef"])
    lines.append("def %s(%s):\n" % (rn(d), params))
    # (twin helpers in two modules have byte-identical text, so they report under one label)
    lines.append("    verif_rt.rec(%r)\n" % (("twin.%s" % rn(d)) if (d.get("rname") or d["name"] == "h9") else "%s.%s" % (d["mod"], d["name"])))
    inners = []
    base = _rexpr(prog, d, d["base"], inners)
    body = _rexpr(prog, d, d["body"], inners)
    lines += inners
    lines.append("    if x <= 0:\n        return %s\n" % base)
    lines.append("    return %s\n" % body)
    return "".join(lines)


def fix_order(prog, defs):
    """a function whose parameter default names another function is defined after that function (same module or not)"""
    defs = list(defs)
    for _ in range(len(defs) * len(defs) + 1):
        moved = False
        names = [d["name"] for d in defs]
        for i, d in enumerate(defs):
            deps = ([d.get("fdef")] if d.get("fdef") else []) + ([d.get("gdef")] if d.get("gdef") else []) + list(d.get("declared") or []) if d["k"] == "fn" else \
                ([d.get("target")] if d["k"] in ("query", "mut") else [])
            late = [dep for dep in deps if dep in names and names.index(dep) > i]
            if late:
                # move behind the last of the definitions it needs at definition time
                defs.insert(max(names.index(dep) for dep in late), defs.pop(i))
                moved = True
                break
        if not moved:
            break
    return defs


HEADER = "import sys\nimport functools\nimport verif_rt\nfrom verif_rt import mf\n%s\n\ndef _verif_wrap(fn):\n    @functools.wraps(fn)\n    def w(*_verif_a, **_verif_k):\n        return fn(*_verif_a, **_verif_k)\n    return w\n\n"


def render_files(prog, order=None):
    """{relative path: text}. `order`: optional permutation of def indices (definition order)."""
    files = {"%s/__init__.py" % prog["pkg"]: ""}
    defs = fix_order(prog, prog["defs"] if order is None else [prog["defs"][i] for i in order])
    for mod in prog["modules"]:
        text = HEADER % _imports(prog, mod)
        for d in defs:
            if d["mod"] == mod and not d.get("late"):
                text += render_def(prog, d) + "\n"
        files["%s/%s.py" % (prog["pkg"], mod)] = text
    return files


def _imports(prog, mod):
    others = [m for m in prog["modules"] if m != mod]
    return "".join(("import %s\n" % prog["pkg"]) if o == INIT else ("from . import %s\n" % o) for o in others)


# ------------------------------------------------------------------------------------------
# static reference graph (the generator's own, independent of memento)
# ------------------------------------------------------------------------------------------

def edges(prog, name, include_hidden=True):
    """names referenced by def `name`: ([callable names], [var names])"""
    d = find(prog, name)
    if d["k"] in ("alias", "wrapper"):
        return [d["target"]], []
    if d["k"] in ("var", "query", "mut"):
        return [], []
    cs, vs = [], []
    if d.get("fdef"):
        cs.append(d["fdef"])
    cs += list(d.get("declared") or [])
    if d.get("gdef"):
        vs.append(d["gdef"])
    for e in exprs_of(d):
        if e["e"] == "call" or (e["e"] == "hidden" and include_hidden):
            cs.append(e["f"])
        elif e["e"] == "glob":
            vs.append(e["n"])
    return cs, vs


def reach(prog, name, include_hidden=True):
    """all def names (callables and vars) reachable from `name`, itself included."""
    seen = set()
    stack = [name]
    while stack:
        n = stack.pop()
        if n in seen:
            continue
        seen.add(n)
        cs, vs = edges(prog, n, include_hidden)
        stack += cs
        seen.update(vs)
    return seen


def has_hidden(prog, name):
    """does `name` make a hidden call itself or through plain helpers (i.e. within its own memento frame)?"""
    seen, stack = set(), [name]
    while stack:
        n = stack.pop()
        if n in seen:
            continue
        seen.add(n)
        d = resolve_fn(prog, n)
        for e in exprs_of(d):
            if e["e"] == "hidden":
                return True
            if e["e"] == "call" and not resolve_fn(prog, e["f"])["memento"]:
                stack.append(e["f"])
    return False


def bump_versions(prog, touched, tag):
    """explicit-version functions that can reach a touched definition assert a new version."""
    bumped = []
    for d in fns(prog):
        if d["memento"] and d.get("version") is not None:
            if reach(prog, d["name"]) & set(touched):
                d["version"] = "%s.%s" % (d["version"].split(".")[0], tag)
                bumped.append(d["name"])
    return bumped


# ------------------------------------------------------------------------------------------
# edits
# ------------------------------------------------------------------------------------------

EDIT_KINDS = ["lit", "nested", "pdef", "kwdef", "setmember", "tupmember", "var", "varmut", "retarget",
              "hide", "unhide", "version", "addglob", "follow", "hidtarget", "varcopy", "realias"]


def _sites(prog, kind):
    out = []
    if kind == "hidtarget":
        # a literal inside a function that some other function reaches through a hidden dynamic call
        for d in prog["defs"]:
            if d["k"] == "fn":
                for e in exprs_of(d):
                    if e["e"] == "hidden":
                        t = resolve_fn(prog, e["f"])
                        out += [(t, le) for le in exprs_of(t) if le["e"] == "lit"]
        return out
    for d in prog["defs"]:
        if d["k"] == "fn":
            if kind == "pdef" and d.get("pdef") is not None:
                out.append((d, None))
            if kind == "kwdef" and d.get("kwdef") is not None:
                out.append((d, None))
            if kind == "version" and d["memento"] and d.get("version") is not None:
                out.append((d, None))
            for e in exprs_of(d):
                if kind == "lit" and e["e"] == "lit":
                    out.append((d, e))
                elif kind == "nested" and e["e"] in ("lam", "inner", "comp"):
                    out.append((d, e))
                elif kind == "setmember" and e["e"] == "inset":
                    out.append((d, e))
                elif kind == "tupmember" and e["e"] == "tupidx":
                    out.append((d, e))
                elif kind == "retarget" and e["e"] == "call":
                    out.append((d, e))
                elif kind == "hide" and e["e"] == "call" and resolve_fn(prog, e["f"])["memento"]:
                    out.append((d, e))
                elif kind == "unhide" and e["e"] == "hidden":
                    out.append((d, e))
        elif d["k"] == "var":
            if kind == "var":
                out.append((d, None))
            if kind == "varcopy" and any(o["k"] == "var" and o["vtype"] == d["vtype"] and o["value"] != d["value"] for o in prog["defs"]):
                # give the variable the value another variable of the same type currently has
                out.append((d, None))
            if kind == "varmut" and d["vtype"] in ("list", "dict", "tuplist"):
                out.append((d, None))
    return out


def apply_edit(prog, edit, tag):
    """
    edit = {"kind", "site": int, "delta": int}. Returns (new program, info) where info =
    {"applied": bool, "kind", "target": def name, "cells": [def names to re-execute in order],
     "stmt": optional statement for in-place mutation, "bumped": [...]}
    """
    p = copy.deepcopy(prog)
    if edit["kind"] == "addglob":
        # make some function refer to a variable it did not refer to before
        fs = fns(p)
        vs = [d for d in p["defs"] if d["k"] == "var"]
        if not fs or not vs:
            return p, {"applied": False, "kind": "addglob"}
        d = fs[edit["site"] % len(fs)]
        v = vs[edit.get("idx", 0) % len(vs)]
        d["body"] = {"e": "add", "a": d["body"], "b": {"e": "glob", "n": v["name"]}}
        bumped = bump_versions(p, [d["name"]], tag)
        order = [x["name"] for x in p["defs"]]
        cells = sorted(set([d["name"]] + bumped), key=order.index)
        return p, {"applied": True, "kind": "addglob", "target": d["name"], "target_mod": d["mod"], "cells": cells, "stmt": None,
                   "bumped": bumped, "target_is": "memento" if d["memento"] else "plain", "new_ref": v["name"]}
    if edit["kind"] == "realias":
        # a module-level alias is bound to another function (a plain assignment, nothing is re-defined)
        # (not an alias that some body looks up dynamically: a hidden edge is invisible to the version, and the refusal of
        # an undeclared callee only happens when the body runs - the same limitation as known finding hidden-plain-callee)
        hidden_names = {e["f"] for f_ in fns(p) for e in exprs_of(f_) if e["e"] == "hidden"}
        als = [d for d in p["defs"] if d["k"] == "alias" and d["name"] not in hidden_names]
        if not als:
            return p, {"applied": False, "kind": "realias"}
        d = als[edit["site"] % len(als)]
        cands = [c["name"] for c in fns(p) if c["name"] != resolve_fn(p, d["name"])["name"] and not c.get("late")
                 and not c.get("fdef") and not c.get("declared") and c["mod"] == d["mod"]]
        if not cands:
            return p, {"applied": False, "kind": "realias"}
        d["target"] = cands[edit.get("idx", 0) % len(cands)]
        bumped = bump_versions(p, [d["name"]], tag)
        order = [x["name"] for x in p["defs"]]
        cells = sorted(set([d["name"]] + bumped), key=order.index)
        return p, {"applied": True, "kind": "realias", "target": d["name"], "target_mod": d["mod"], "cells": cells, "stmt": None, "bumped": bumped,
                   "target_is": "alias", "new_ref": d["target"]}
    sites = _sites(p, edit["kind"])
    if edit.get("target"):
        sites = [s_ for s_ in sites if s_[0]["name"] == edit["target"]]
    if not sites:
        return p, {"applied": False, "kind": edit["kind"]}
    d, e = sites[edit["site"] % len(sites)]
    delta = edit.get("delta", 1) or 1
    kind = edit["kind"]
    stmt = None
    if kind in ("lit", "hidtarget"):
        e["v"] = e["v"] + delta
    elif kind == "nested":
        if e["e"] == "inner" and edit.get("alt"):
            e["d"] = e["d"] + delta
        else:
            e["c"] = e["c"] + delta
    elif kind == "pdef":
        d["pdef"] += delta
    elif kind == "kwdef":
        d["kwdef"] += delta
    elif kind == "setmember":
        i = edit.get("idx", 0) % len(e["s"])
        v = e["s"][i]
        e["s"][i] = (v + delta + 100) if isinstance(v, (int, float)) and not isinstance(v, bool) else (str(v) + "x")
    elif kind == "tupmember":
        i = edit.get("idx", 0) % len(e["t"])
        e["t"][i] = e["t"][i] + delta
    elif kind == "var":
        if d["vtype"] == "int":
            d["value"] += delta
        elif d["vtype"] == "list":
            d["value"] = d["value"] + [delta]
        elif d["vtype"] == "dict":
            d["value"] = dict(d["value"], k=d["value"]["k"] + delta)
        elif d["vtype"] == "dictset":
            d["value"] = d["value"] + ["n%d%s" % (len(d["value"]), "x" * delta)]
        elif d["vtype"] == "tuplist":
            d["value"] = {"a": d["value"]["a"] + delta, "l": list(d["value"]["l"])}
        elif d["vtype"] == "mixset":
            d["value"] = d["value"] + ["m%d%s" % (len(d["value"]), "x" * delta)]
        else:
            d["value"] = d["value"] + "y"
    elif kind == "varcopy":
        others = [o for o in p["defs"] if o["k"] == "var" and o["vtype"] == d["vtype"] and o["value"] != d["value"]]
        d["value"] = copy.deepcopy(others[edit.get("idx", 0) % len(others)]["value"])
    elif kind == "varmut":
        if d["vtype"] == "list":
            d["value"] = d["value"] + [delta]
            stmt = "%s.append(%r)\n" % (rn(d), delta)
        elif d["vtype"] == "tuplist":
            d["value"] = {"a": d["value"]["a"], "l": d["value"]["l"] + [delta]}
            stmt = "%s[1].append(%r)\n" % (rn(d), delta)
        else:
            d["value"] = dict(d["value"], k=d["value"]["k"] + delta)
            stmt = "%s[\"k\"] = %r\n" % (rn(d), d["value"]["k"])
    elif kind == "retarget":
        cands = [c["name"] for c in callables(p) if c["name"] != e["f"] and c["mod"] in p["modules"]]
        if not cands:
            return p, {"applied": False, "kind": kind}
        e["f"] = cands[edit.get("idx", 0) % len(cands)]
    elif kind == "hide":
        tgt = find(p, e["f"])
        e["e"] = "hidden"
        e["via"] = "globals" if (tgt["mod"] == d["mod"] and edit.get("alt")) else "sysmod"
    elif kind == "unhide":
        e["e"] = "call"
        e.pop("via", None)
    elif kind == "version":
        pass
    bumped = bump_versions(p, [d["name"]], tag)
    if kind == "version" and d["name"] not in bumped:
        d["version"] = "%s.%s" % (d["version"].split(".")[0], tag)
        bumped.append(d["name"])
    cells = []
    if stmt is None:
        cells.append(d["name"])
    for b in bumped:
        if b not in cells:
            cells.append(b)
    # keep definition order for the cells
    order = [x["name"] for x in p["defs"]]
    cells.sort(key=order.index)
    return p, {"applied": True, "kind": kind, "target": d["name"], "target_mod": d["mod"], "cells": cells, "stmt": stmt,
               "bumped": bumped, "target_is": d["k"] if d["k"] != "fn" else ("memento" if d["memento"] else "plain"),
               "new_ref": e["f"] if kind == "retarget" else None}


# ------------------------------------------------------------------------------------------
# strategy
# ------------------------------------------------------------------------------------------

def program_strategy(max_fns=6, two_modules=True, allow_hidden=True, allow_explicit=True, allow_cluster=True,
                     str_sets=True, allow_hidden_plain=False, allow_alias=True, explicit_f0=False, value_heavy=False, allow_fdef=False, allow_dictset=False, allow_init=False, allow_query=False, allow_tuplist=False, allow_declared=False, helper_heavy=False, allow_mut=False, allow_twins=False, allow_keyclash=False, allow_rename=False, allow_mixset=False, allow_nested_refs=False, allow_gdef=False):
    from hypothesis import strategies as st

    small = st.integers(0, 9)

    @st.composite
    def prog(draw):
        modules = ["a", "b"] if (two_modules and draw(st.booleans())) else ["a"]
        if allow_init and draw(st.integers(0, 2)) == 0:
            # some definitions live in the package's own __init__.py (same package as its sub-modules)
            modules = [INIT] + modules
        nf = 3 if helper_heavy else draw(st.integers(2, max_fns))
        nv = draw(st.integers(3, 5)) if value_heavy else draw(st.integers(0, 4))
        defs = []
        tiny = value_heavy or draw(st.booleans())  # few distinct values: equal-valued variables are frequent
        small_v = st.integers(0, 1) if value_heavy else (st.integers(0, 2) if tiny else small)
        for i in range(nv):
            vt = "int" if value_heavy else draw(st.sampled_from(["int", "int", "int", "list", "dict", "str"] if tiny else ["int", "int", "list", "dict", "str"]))
            if allow_dictset and not value_heavy and draw(st.integers(0, 3)) == 0:
                vt = "dictset"
            elif allow_tuplist and not value_heavy and draw(st.integers(0, 3)) == 0:
                vt = "tuplist"
            elif allow_mixset and not value_heavy and draw(st.integers(0, 3)) == 0:
                vt = "mixset"
            val = {"int": draw(small_v), "list": draw(st.lists(small_v, max_size=3)), "dict": {"k": draw(small_v), "z": 1},
                   "dictset": draw(st.lists(st.sampled_from(["a", "bb", "ccc", "dddd", "e", "zz9", "q"]), min_size=2, max_size=5, unique=True)),
                   "tuplist": {"a": draw(small_v), "l": draw(st.lists(small_v, max_size=2))},
                   "mixset": (draw(st.lists(st.sampled_from(["", "NA", "n/a", "?", "null", "-"]), min_size=2, max_size=4, unique=True))
                              + draw(st.lists(st.sampled_from([None, 3, 17, 2.5, -1]), min_size=1, max_size=3, unique=True))) if vt == "mixset" else None,
                   "str": draw(st.text(alphabet="ab", max_size=3))}[vt]
            defs.append({"k": "var", "mod": draw(st.sampled_from(modules)), "name": "G%d" % i, "vtype": vt, "value": val})
        fnames = ["f%d" % i for i in range(nf)]
        fmods = {n: draw(st.sampled_from(modules)) for n in fnames}
        fmem = {n: (True if n == "f0" else (False if helper_heavy else draw(st.sampled_from([True, True, True, False])))) for n in fnames}
        extra = []
        for n in fnames:
            if allow_alias and draw(st.integers(0, 5)) == 0:
                extra.append({"k": draw(st.sampled_from(["alias", "wrapper"])), "mod": fmods[n], "name": n + "_r", "target": n})
        call_targets = fnames + [x["name"] for x in extra]
        varnames = [d["name"] for d in defs]

        def leaf(has_k, has_kw, has_fn=False):
            opts = [st.builds(lambda v: {"e": "lit", "v": v}, small), st.just({"e": "x"})]
            if has_fn:
                opts.append(st.just({"e": "pfn"}))
            if has_k:
                opts.append(st.just({"e": "pk"}))
            if has_kw:
                opts.append(st.just({"e": "pkw"}))
            if varnames:
                opts.append(st.builds(lambda n: {"e": "glob", "n": n}, st.sampled_from(varnames)))
            return st.one_of(*opts)

        def setlit():
            if str_sets and draw(st.integers(0, 3)) == 0:
                # mixed member types, as in `x in {"none", "", None}` or `x in {1, "one", 2.5}`
                return draw(st.lists(st.sampled_from(["a", "bb", "", "none", 1, 7, None, 2.5]), min_size=2, max_size=4, unique=True))
            if str_sets and draw(st.booleans()):
                return draw(st.lists(st.sampled_from(["a", "b", "cc", "dd", "e", "zz"]), min_size=2, max_size=4, unique=True))
            return draw(st.lists(small, min_size=1, max_size=3, unique=True))

        def simple(has_k, has_kw, depth=0):
            kind = draw(st.sampled_from(["leaf", "leaf", "add", "inset", "tupidx", "lam", "inner", "comp"] if depth < 2 else ["leaf"]))
            if kind == "leaf":
                return draw(leaf(has_k, has_kw))
            if kind == "add":
                return {"e": draw(st.sampled_from(["add", "add", "mul"])), "a": simple(has_k, has_kw, depth + 1), "b": simple(has_k, has_kw, depth + 1)}
            if kind == "inset":
                return {"e": "inset", "x": simple(has_k, has_kw, depth + 1), "s": setlit()}
            if kind == "tupidx":
                return {"e": "tupidx", "t": draw(st.lists(small, min_size=1, max_size=3)), "i": simple(has_k, has_kw, depth + 1)}
            if kind == "lam":
                return {"e": "lam", "c": draw(small), "x": simple(has_k, has_kw, depth + 1)}
            if kind == "inner":
                return {"e": "inner", "c": draw(small), "d": draw(small), "x": simple(has_k, has_kw, depth + 1)}
            return {"e": "comp", "c": draw(small), "x": simple(has_k, has_kw, depth + 1)}

        with_fdef = [n for n in fnames if allow_fdef and draw(st.integers(0, 4)) == 0]
        ffdef = {}
        for n in with_fdef:
            # same module: the default is evaluated while the module is being imported
            cands = [t for t in fnames if t not in with_fdef and fmods[t] == fmods[n]]
            if cands:
                ffdef[n] = draw(st.sampled_from(cands))
        for n in fnames:
            memento = fmem[n]
            has_k = draw(st.integers(0, 2)) == 0
            has_kw = draw(st.integers(0, 3)) == 0
            if helper_heavy and not memento:
                has_k, has_kw = True, draw(st.booleans())
            d = {"k": "fn", "mod": fmods[n], "name": n, "memento": memento, "version": None, "cluster": None,
                 "pdef": draw(small) if has_k else None, "kwdef": draw(small) if has_kw else None, "fdef": ffdef.get(n)}
            if memento and allow_explicit and (n != "f0" or explicit_f0) and draw(st.integers(0, 4)) == 0:
                d["version"] = "v"
            if memento and allow_cluster and draw(st.integers(0, 3)) == 0:
                d["cluster"] = "c"
            d["base"] = simple(has_k, has_kw, 1)
            body = simple(has_k, has_kw)
            gvars = [v_ for v_ in defs if v_["k"] == "var" and v_["vtype"] in ("list", "dict") and v_["mod"] == fmods[n]]
            if allow_gdef and gvars and draw(st.integers(0, 2)) == 0:
                # a parameter whose default is a module-level list / dict of the same module (evaluated when the function is defined)
                d["gdef"] = draw(st.sampled_from(gvars))["name"]
                body = {"e": "add", "a": body, "b": {"e": "pg"}}
            if helper_heavy:
                # the root calls both plain helpers; the helpers' results depend on their default parameter values
                if memento:
                    body = {"e": "add", "a": {"e": "add", "a": body, "b": {"e": "call", "f": "f1"}}, "b": {"e": "call", "f": "f2"}}
                else:
                    body = {"e": "add", "a": body, "b": {"e": "add", "a": {"e": "pk"}, "b": {"e": "pkw"}}}
                    d["base"] = {"e": "add", "a": d["base"], "b": {"e": "pk"}}
            for _ in range(draw(st.integers(0, 2))):
                tgt = draw(st.sampled_from(call_targets))
                # hidden calls only to memento functions: a dynamically dispatched *plain* helper can be neither
                # detected nor refused by the library (known finding hidden-plain-callee)
                tgt_memento = fmem[tgt[:-2] if tgt.endswith("_r") else tgt]
                # (a declared dependency must exist when the decorator runs: same module, and only "higher-numbered"
                # functions are declared, so that an order exists)
                declare = allow_declared and memento and not tgt.endswith("_r") and fmods[tgt] == fmods[n] \
                    and int(tgt[1:]) > int(n[1:]) and tgt not in ffdef and draw(st.integers(0, 1)) == 0
                if allow_hidden and (tgt_memento or allow_hidden_plain or declare) and draw(st.integers(0, 4)) == 0:
                    call = {"e": "hidden", "f": tgt, "via": draw(st.sampled_from(["globals", "sysmod", "sysmod", "clone"]))}
                    if declare and tgt not in d.setdefault("declared", []):
                        # the dynamic callee is declared as a dependency (then it may also be a plain helper)
                        d["declared"].append(tgt)
                        # (dependencies may also be declared by memento's qualified name, "module:function" - rendered when a
                        # definition carries "declared_q"; not generated: with a reference cycle through such a declaration the
                        # unchanged library recurses without end while the functions are being registered, see DESIGN.md 5.4)
                else:
                    call = {"e": "call", "f": tgt}
                    form = draw(st.integers(0, 7))
                    if form == 0:
                        call["form"] = "attrchain"
                    elif form == 1:
                        call["form"] = "clone"
                body = {"e": "add", "a": body, "b": call}
            if ffdef.get(n) and draw(st.integers(0, 2)) > 0:
                body = {"e": "add", "a": body, "b": {"e": "pfn"}}
            if n == "f0" and tiny and varnames and (value_heavy or draw(st.booleans())):
                # the root reads every variable: value-hashed entities with equal values in one closure
                for vn in varnames:
                    body = {"e": "add", "a": body, "b": {"e": "glob", "n": vn}}
            d["body"] = body
            defs.append(d)
        defs += extra
        if allow_twins and len([m_ for m_ in modules if m_ != INIT]) == 2 and draw(st.integers(0, 3)) > 0:
            # "twins": a variable in the other module that has the SAME name in its module's source but another value,
            # read (as other.NAME) by the root next to its own NAME; and a plain helper with identical text next to it
            ivars = [x for x in defs if x["k"] == "var" and x["vtype"] == "int" and x["mod"] != INIT]
            if not ivars:
                ivars = [{"k": "var", "mod": "a", "name": "G9", "vtype": "int", "value": draw(small)}]
                defs.append(ivars[0])
            if ivars:
                v0 = draw(st.sampled_from(ivars))
                om = [m_ for m_ in modules if m_ not in (INIT, v0["mod"])][0]
                tw = {"k": "var", "mod": om, "name": v0["name"] + "tw", "rname": v0["name"], "vtype": "int", "value": v0["value"] + draw(st.integers(1, 3))}
                defs.append(tw)
                root = next(x for x in defs if x["k"] == "fn" and x["name"] == "f0")
                root["body"] = {"e": "add", "a": root["body"], "b": {"e": "add", "a": {"e": "glob", "n": v0["name"]}, "b": {"e": "glob", "n": tw["name"]}}}
                # plain helper pair: h in v0's module reads NAME, its twin in the other module reads that module's NAME
                hb = {"e": "add", "a": {"e": "x"}, "b": {"e": "glob", "n": v0["name"]}}
                helper = {"k": "fn", "mod": v0["mod"], "name": "h9", "memento": False, "version": None, "cluster": None, "pdef": None, "kwdef": None,
                          "fdef": None, "base": {"e": "glob", "n": v0["name"]}, "body": hb}
                twin = dict(helper, mod=om, name="h9tw", rname="h9", base={"e": "glob", "n": tw["name"]},
                            body={"e": "add", "a": {"e": "x"}, "b": {"e": "glob", "n": tw["name"]}})
                defs += [helper, twin]
                root["body"] = {"e": "add", "a": root["body"], "b": {"e": "call", "f": "h9"}}
        if allow_keyclash:
            root = next(x for x in defs if x["k"] == "fn" and x["name"] == "f0")
            which = draw(st.integers(0, 3))
            if which == 1:
                # two module-level lambdas, both called by the root
                for li, cst in enumerate(draw(st.lists(small, min_size=2, max_size=2, unique=True))):
                    defs.append({"k": "fn", "mod": root["mod"], "name": "lam%d" % li, "memento": False, "version": None, "cluster": None, "pdef": None,
                                 "kwdef": None, "fdef": None, "lam": True, "base": {"e": "lit", "v": cst}, "body": {"e": "add", "a": {"e": "x"}, "b": {"e": "lit", "v": cst}}})
                    root["body"] = {"e": "add", "a": root["body"], "b": {"e": "call", "f": "lam%d" % li}}
            elif which == 2:
                # a memento function and a module-level modifier clone of it, both called by the root
                tg = [x for x in defs if x["k"] == "fn" and x["memento"] and x["name"] != "f0" and x["mod"] == root["mod"] and not x.get("fdef") and not x.get("declared")]
                if tg:
                    t = draw(st.sampled_from(tg))
                    defs.append({"k": "alias", "form": "clone", "mod": root["mod"], "name": t["name"] + "_c", "target": t["name"]})
                    root["body"] = {"e": "add", "a": {"e": "add", "a": root["body"], "b": {"e": "call", "f": t["name"]}}, "b": {"e": "call", "f": t["name"] + "_c"}}
        if allow_mut:
            for vi, vd in enumerate([x for x in defs if x["k"] == "var" and x["vtype"] in ("list", "dict", "tuplist")]):
                if draw(st.booleans()):
                    defs.append({"k": "mut", "mod": vd["mod"], "name": "_mut%d" % vi, "target": vd["name"], "delta": draw(st.integers(10, 12))})
        if allow_query:
            for qi in range(draw(st.integers(0, 2))):
                tgt = draw(st.sampled_from([n for n in fnames if fmem[n]]))
                defs.append({"k": "query", "mod": fmods[tgt], "name": "_vq%d" % qi, "target": tgt})
        # definition order: vars and functions interleaved arbitrarily, aliases/wrappers after their targets
        order = draw(st.permutations(range(len(defs))))
        ordered = [defs[i] for i in order]
        ordered.sort(key=lambda d: 1 if d["k"] in ("alias", "wrapper") else 0)
        out = {"pkg": "vpk", "modules": modules, "defs": fix_order(None, ordered)}
        if allow_nested_refs and draw(st.booleans()):
            # some references to variables and functions are made from a nested scope (lambda, nested def, comprehension /
            # generator expression), or next to a nested function whose parameter has the same name
            for d_ in out["defs"]:
                if d_["k"] != "fn" or d_.get("lam"):
                    continue
                # (a local named like a dotted reference's last component must not hide a module-level name the function uses bare)
                own_names = {rn(o_) for o_ in out["defs"] if o_["mod"] == d_["mod"] and o_["k"] in ("var", "fn", "alias", "wrapper")}
                for e_ in exprs_of(d_):
                    if e_["e"] == "glob" and draw(st.integers(0, 2)) == 0:
                        e_["form"] = draw(st.sampled_from(["lambda", "inner", "compr", "shadowed", "localnamed", "localnamed"]))
                        if e_["form"] == "localnamed" and rn(find(out, e_["n"])) in own_names:
                            e_["form"] = "lambda"
                    elif e_["e"] == "call" and not e_.get("form") and draw(st.integers(0, 2)) == 0:
                        e_["form"] = draw(st.sampled_from(["lambda", "inner", "genexp", "localnamed", "localnamed"]))
                        if e_["form"] == "localnamed" and rn(find(out, e_["f"])) in own_names:
                            e_["form"] = "lambda"
        if allow_rename and draw(st.integers(0, 2)) == 0:
            # unusual but legal names: a variable / helper / memoized callee called like a builtin, or with a very long name
            cands = [d["name"] for d in out["defs"] if d["k"] in ("var", "fn") and d["name"] != "f0" and not d.get("rname")
                     and not d.get("lam") and d["name"] not in ("h9", "h9tw")]
            mapping = {}
            if cands:
                picked = draw(st.lists(st.sampled_from(cands), min_size=1, max_size=2, unique=True))
                new = draw(st.lists(st.sampled_from(BUILTIN_NAMES + ["L%d" % n for n in LONG_PADS]), min_size=len(picked), max_size=len(picked), unique=True))
                for old, nn in zip(picked, new):
                    mapping[old] = (old + "_" + "q" * int(nn[1:])) if nn[0] == "L" else nn
                # (aliases / wrappers are named after their target at generation time only; they keep their names)
                out = rename_defs(out, mapping)
        return out

    return prog()


def edit_strategy():
    from hypothesis import strategies as st
    return st.builds(lambda k, s, dl, alt, idx: {"kind": k, "site": s, "delta": dl, "alt": alt, "idx": idx},
                     st.sampled_from(EDIT_KINDS + ["lit", "pdef", "kwdef", "nested", "var", "retarget", "varcopy", "hidtarget", "realias"]),
                     st.integers(0, 30), st.integers(1, 5), st.booleans(), st.integers(0, 5))


def features(prog):
    f = set()
    for d in fns(prog):
        if d.get("pdef") is not None:
            f.add("default")
        if d.get("kwdef") is not None:
            f.add("kwonly-default")
        if d.get("version") is not None:
            f.add("explicit-version")
        if d.get("fdef"):
            f.add("fn-default")
        if d.get("declared"):
            f.add("declared-dependency")
        if not d["memento"]:
            f.add("plain-helper")
        for e in exprs_of(d):
            if e["e"] in ("inset", "tupidx", "lam", "inner", "comp", "hidden", "glob"):
                f.add(e["e"])
            if e["e"] == "inset" and any(isinstance(v, str) for v in e["s"]):
                f.add("str-set")
            if e["e"] == "hidden":
                t = resolve_fn(prog, e["f"])
                if t["memento"] and t.get("version") is not None:
                    f.add("hidden-to-explicit")
                if e.get("via") == "clone":
                    f.add("hidden-via-clone")
            if e["e"] == "call" and e.get("form") == "clone":
                f.add("call-via-clone")
    if len(prog["modules"]) > 1:
        f.add("two-modules")
    if INIT in prog["modules"] and any(d["mod"] == INIT for d in prog["defs"]):
        f.add("package-init-module")
    if any(d["k"] == "var" and d["vtype"] == "dictset" for d in prog["defs"]):
        f.add("dict-from-set")
    if any(d["k"] == "var" and d["vtype"] == "tuplist" for d in prog["defs"]):
        f.add("tuple-holding-list")
    if any(d["k"] == "var" and d["vtype"] == "mixset" for d in prog["defs"]):
        f.add("mixed-type-set")
    if any(d.get("gdef") for d in fns(prog)):
        f.add("variable-as-parameter-default")
    if any(e.get("form") in ("lambda", "inner", "compr", "shadowed", "genexp", "localnamed") for d in fns(prog) for e in exprs_of(d) if e["e"] in ("glob", "call")):
        f.add("reference-from-nested-scope")
    if any(d["k"] in ("alias", "wrapper") for d in prog["defs"]):
        f.add("alias-or-wrapper")
    if any(d["k"] == "query" for d in prog["defs"]):
        f.add("version-query-at-import")
    if any(d["k"] == "mut" for d in prog["defs"]):
        f.add("in-place-update-at-import")
    if any(d.get("rname") for d in prog["defs"]):
        f.add("same-name-in-two-modules")
    if sum(1 for d in prog["defs"] if d.get("lam")) >= 2:
        f.add("two-module-level-lambdas")
    if any(d.get("form") == "clone" for d in prog["defs"]):
        f.add("function-and-module-level-clone")
    return sorted(f)


def hidden_plain_reachable(prog, name):
    """does anything reachable from `name` make a hidden call to a plain (non-memento) function?"""
    for n in reach(prog, name):
        d = find(prog, n)
        if d["k"] == "fn":
            for e in exprs_of(d):
                if e["e"] == "hidden" and not resolve_fn(prog, e["f"])["memento"] and e["f"] not in (d.get("declared") or []):
                    return True
    return False


def render_cells(prog):
    """[[module, source]]: one header cell per module, then one cell per (non-late) definition in definition order."""
    cells = []
    for mod in prog["modules"]:
        cells.append([mod, HEADER % _imports(prog, mod)])
    for d in fix_order(prog, prog["defs"]):
        if not d.get("late"):
            cells.append([d["mod"], render_def(prog, d)])
        elif d["late"] == "placeholder":
            # the name exists, bound to something memento can neither hash nor call
            cells.append([d["mod"], "%s = object()\n" % d["name"]])
    return cells

"""An exception class in a module of its own, imported lazily by the body that raises it (C02)."""


class LazyErr(Exception):
    pass

"""
Harness memento functions used as storage keys (E2). Names are prefixes of each other
(f, f2, fa, fab), versions '1' and '10', named cluster 'c' and the default cluster.
The module must be importable under its name: stored mementos are decoded by importing it.
"""
import twosigma.memento as m
from twosigma.memento.reference import FunctionReference


def _make(name, version, cluster):
    def fn(a=None, b=None):
        return a

    fn.__name__ = name
    fn.__qualname__ = name
    fn.__module__ = __name__
    return m.MementoFunction(fn, cluster_name=cluster, version=version)


f = _make("f", "1", "c")
f2 = _make("f2", "1", "c")
fa = _make("fa", "10", "c")
fab = _make("fab", "1", None)


def _external(qn):
    # a version of `f` that is not the registered one: as a remote runner / older process
    # would have stored it (FunctionReference docstring: such a reference must be external)
    return FunctionReference.from_qualified_name(qn, external=True, parameter_names=["a", "b"])


def refs():
    return {
        "f#1": f.fn_reference(),
        "f#10": _external("c::" + __name__ + ":f#10"),
        "f2#1": f2.fn_reference(),
        "fa#10": fa.fn_reference(),
        "fab#1": fab.fn_reference(),
    }


FN_KEYS = ["f#1", "f#10", "f2#1", "fa#10", "fab#1"]

"""
E3 - filesystem observer / fault injector built on one sys.addaudithook.

`Watch(root)` records every audited filesystem event whose path lies under `root`
(open with mode/flags, mkdir, rename/replace, remove/unlink, rmdir, truncate, rmtree,
listdir/scandir ...). `mutating(ev)` tells whether an event changes the tree. A `fault`
callback may raise from inside the hook to inject an error or kill the process at an event.
"""
import os
import sys
import hashlib

_watches = []
_installed = False

_MUT_EVENTS = {"os.mkdir", "os.rename", "os.remove", "os.rmdir", "os.truncate", "shutil.rmtree",
               "os.chmod", "os.chown", "os.link", "os.symlink", "os.utime", "os.setxattr",
               "shutil.move", "shutil.copyfile", "tempfile.mkstemp", "tempfile.mkdtemp"}
_READ_EVENTS = {"os.listdir", "os.scandir", "glob.glob", "pathlib.Path.glob"}
_WRITE_FLAGS = os.O_WRONLY | os.O_RDWR | os.O_CREAT | os.O_TRUNC | os.O_APPEND


def _paths_of(event, args):
    if event == "open":
        return [args[0]]
    if event in ("os.rename", "os.link", "os.symlink", "shutil.move", "shutil.copyfile"):
        return [args[0], args[1]]
    if event in _MUT_EVENTS or event in _READ_EVENTS:
        return [args[0]] if args else []
    return []


def _hook(event, args):
    if not _watches:
        return
    if event != "open" and event not in _MUT_EVENTS and event not in _READ_EVENTS:
        return
    try:
        paths = []
        for p in _paths_of(event, args):
            if isinstance(p, int) or p is None:
                continue
            p = os.fspath(p)
            if isinstance(p, bytes):
                p = p.decode("utf-8", "replace")
            paths.append(os.path.abspath(p))
    except Exception:
        return
    if not paths:
        return
    for w in list(_watches):
        if not w.active:
            continue
        hit = [p for p in paths if p == w.root or p.startswith(w.root_slash)]
        if not hit:
            continue
        ev = {"event": event, "path": hit[0]}
        if event == "open":
            ev["mode"] = args[1] if len(args) > 1 else None
            ev["flags"] = args[2] if len(args) > 2 else 0
        ev["mutating"] = mutating(ev)
        w.events.append(ev)
        if w.fault is not None:
            w.fault(ev, w)  # may raise / os._exit


def mutating(ev):
    if ev["event"] == "open":
        flags = ev.get("flags") or 0
        mode = ev.get("mode") or ""
        return bool(flags & _WRITE_FLAGS) or any(c in str(mode) for c in "wax+")
    return ev["event"] in _MUT_EVENTS


class Watch:
    def __init__(self, root, fault=None):
        global _installed
        self.root = os.path.abspath(root)
        self.root_slash = self.root.rstrip("/") + "/"
        self.events = []
        self.fault = fault
        self.active = False
        if not _installed:
            sys.addaudithook(_hook)
            _installed = True

    def __enter__(self):
        self.active = True
        _watches.append(self)
        return self

    def __exit__(self, *exc):
        self.active = False
        if self in _watches:
            _watches.remove(self)
        return False

    def mutations(self):
        return [e for e in self.events if e["mutating"]]

    def reads(self):
        return [e for e in self.events if e["event"] == "open" and not e["mutating"]]

    def clear(self):
        self.events = []


def tree_digest(root):
    """Digest of the whole tree (names, sizes, contents) under root; '' if absent."""
    if not os.path.exists(root):
        return ""
    h = hashlib.sha256()
    for dirpath, dirnames, filenames in os.walk(root):
        dirnames.sort()
        h.update(("D:" + os.path.relpath(dirpath, root) + "\n").encode())
        for fn in sorted(filenames):
            p = os.path.join(dirpath, fn)
            h.update(("F:" + os.path.relpath(p, root) + "\n").encode())
            try:
                with open(p, "rb") as f:
                    h.update(hashlib.sha256(f.read()).digest())
            except OSError:
                h.update(b"?")
    return h.hexdigest()

"""Harness functions for C08/C09: table-driven bodies; the table lives in vlib.rt."""
import twosigma.memento as m
from twosigma.memento.result import KeyOverrideResult
from vlib import rt


@m.memento_function(cluster="c", version="1")
def cv(k):
    return rt.produce("cv", k)


@m.memento_function(cluster="c", version="1")
def cv2(k):
    return rt.produce("cv2", k)


@m.memento_function(cluster="c", version="1")
def cc(k):
    rt._log.append(("cc", {"k": k}))
    return [cv(k), 1]


@m.memento_function(cluster="c", version="1")
def ck(k):
    return KeyOverrideResult(rt.produce("ck", k), "ov/k%d" % k)


FUNCS = {"cv": cv, "cv2": cv2, "cc": cc, "ck": ck}

"""Harness functions for C08/C09: table-driven bodies; the table lives in vlib.rt."""
import twosigma.memento as m
from twosigma.memento.result import KeyOverrideResult
from vlib import rt


@m.memento_function(cluster="c", version="1")
def cv(k):
    return rt.produce("cv", k)


@m.memento_function(cluster="c", version="1")
def cv2(k):
    return rt.produce("cv2", k)


@m.memento_function(cluster="c", version="1")
def cc(k):
    rt._log.append(("cc", {"k": k}))
    return [cv(k), 1]


@m.memento_function(cluster="c", version="1")
def ck(k):
    return KeyOverrideResult(rt.produce("ck", k), "ov/k%d" % k)


@m.memento_function(cluster="c", version="1")
def ck2(k):
    # another call publishing (a different value) under the same override key as ck(k)
    return KeyOverrideResult(rt.produce("ck2", k), "ov/k%d" % k)


@m.memento_function(cluster="c", version="1")
def cp(p, k):
    return rt.produce("cp", k)


class _Presented:
    """the call cp(7, k) presented in different, equivalent ways (one memo key)"""

    def __init__(self, how):
        self.how = how

    def __call__(self, k):
        if self.how == "partial":
            return cp.partial(7)(k)
        if self.how == "kw":
            return cp(k=k, p=7)
        return cp(7, k)

    def memento(self, k):
        return cp.memento(7, k)


@m.memento_function(cluster="c", version="1")
def cpa(k):
    from twosigma.memento.partition import InMemoryPartition
    return InMemoryPartition({"a": rt.produce("cpa", k), "b": k})


@m.memento_function(cluster="c", version="1")
def cpb(k):
    # another function returning a partition with other keys
    from twosigma.memento.partition import InMemoryPartition
    return InMemoryPartition({"x": rt.produce("cpb", k), "y": [k, k]})


class _Batch:
    """cv over [k, k + 1] through the batch entry point"""

    def __call__(self, k):
        return cv.call_batch([{"k": k}, {"k": k + 1}])

    def memento(self, k):
        return cv.memento(k + 1)


class _Forget:
    def __call__(self, k):
        return cv.forget(k)

    def memento(self, k):
        return None


FUNCS = {"cpa": cpa, "cpb": cpb, "cv.batch": _Batch(), "cv.forget": _Forget(), "cv": cv, "cv2": cv2, "cc": cc, "ck": ck, "ck2": ck2, "cp": _Presented("plain"), "cp.partial": _Presented("partial"),
         "cp.kw": _Presented("kw")}

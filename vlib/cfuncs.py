"""Harness functions for C08/C09: table-driven bodies; the table lives in vlib.rt."""
import twosigma.memento as m
from twosigma.memento.result import KeyOverrideResult
from vlib import rt


@m.memento_function(cluster="c", version="1")
def cv(k):
    return rt.produce("cv", k)


@m.memento_function(cluster="c", version="1")
def cv2(k):
    return rt.produce("cv2", k)


@m.memento_function(cluster="c", version="1")
def cc(k):
    rt._log.append(("cc", {"k": k}))
    return [cv(k), 1]


@m.memento_function(cluster="c", version="1")
def ck(k):
    return KeyOverrideResult(rt.produce("ck", k), "ov/k%d" % k)


@m.memento_function(cluster="c", version="1")
def ck2(k):
    # another call publishing (a different value) under the same override key as ck(k)
    return KeyOverrideResult(rt.produce("ck2", k), "ov/k%d" % k)


@m.memento_function(cluster="c", version="1")
def cp(p, k):
    return rt.produce("cp", k)


class _Presented:
    """the call cp(7, k) presented in different, equivalent ways (one memo key)"""

    def __init__(self, how):
        self.how = how

    def __call__(self, k):
        if self.how == "partial":
            return cp.partial(7)(k)
        if self.how == "kw":
            return cp(k=k, p=7)
        return cp(7, k)

    def memento(self, k):
        return cp.memento(7, k)


FUNCS = {"cv": cv, "cv2": cv2, "cc": cc, "ck": ck, "ck2": ck2, "cp": _Presented("plain"), "cp.partial": _Presented("partial"),
         "cp.kw": _Presented("kw")}

"""
E4 - deterministic thread scheduler.

Worker threads run under sys.settrace; `line` events in the modules listed in LINE_FILES and `call`
events in every other twosigma.memento module are yield points. Exactly one worker runs at a
time (baton = one semaphore per thread). A schedule is a list of preemptions
[(global yield index, thread to switch to)]; without preemptions the running thread continues
until it finishes or blocks on a (cooperative) lock, then the lowest-numbered runnable thread runs.
"""
import collections
import os
import sys
import threading
import time

from .core import HarnessError

LINE_FILES = ("runner_local.py", "storage_base.py", "call_stack.py", "runner.py", "storage_filesystem.py")
MARK = os.sep + os.path.join("twosigma", "memento") + os.sep

_active = None           # the Scheduler currently running, if any
_tls = threading.local()
_LOCK_TYPES = (type(threading.Lock()), type(threading.RLock()))


def current_tid():
    return getattr(_tls, "tid", None)


class CoopRLock:
    """Re-entrant lock that cooperates with the scheduler instead of blocking the OS thread."""

    def __init__(self):
        self.owner = None
        self.count = 0

    def acquire(self, blocking=True, timeout=-1):
        me = current_tid()
        s = _active
        if s is None or me is None:
            # no scheduler: single-threaded use (set-up / tear-down code)
            if self.owner not in (None, "main"):
                raise HarnessError("cooperative lock held by a worker outside a schedule")
            self.owner, self.count = "main", self.count + 1
            return True
        while self.owner is not None and self.owner != me:
            if not blocking:
                return False
            s.block(me, self)
        self.owner = me
        self.count += 1
        return True

    def release(self):
        self.count -= 1
        if self.count <= 0:
            self.owner, self.count = None, 0
            if _active is not None:
                _active.wake(self)

    def __enter__(self):
        self.acquire()
        return self

    def __exit__(self, *exc):
        self.release()
        return False

    def locked(self):
        return self.owner is not None


def replace_locks(objects=()):
    """Replace every Lock/RLock found in twosigma.memento module globals, in lock-producing defaultdict
    factories there, and in the attributes of the given objects, by cooperative locks."""
    n = 0
    for name, mod in list(sys.modules.items()):
        if not name.startswith("twosigma.memento") or mod is None:
            continue
        for k, v in list(vars(mod).items()):
            if isinstance(v, _LOCK_TYPES):
                setattr(mod, k, CoopRLock())
                n += 1
            elif isinstance(v, (tuple, list)) and v and all(isinstance(x, _LOCK_TYPES) for x in v):
                # a fixed pool of locks (lock striping)
                setattr(mod, k, type(v)(CoopRLock() for _ in v))
                n += 1
            elif isinstance(v, dict) and not isinstance(v, collections.defaultdict) and v and all(isinstance(x, _LOCK_TYPES) for x in v.values()):
                for kk in list(v):
                    v[kk] = CoopRLock()
                n += 1
            elif isinstance(v, collections.defaultdict) and v.default_factory is not None:
                try:
                    probe = v.default_factory()
                except Exception:
                    continue
                if isinstance(probe, _LOCK_TYPES + (CoopRLock,)):
                    v.clear()
                    v.default_factory = CoopRLock
                    n += 1
    for o in objects:
        if o is None:
            continue
        for k, v in list(getattr(o, "__dict__", {}).items()):
            if isinstance(v, _LOCK_TYPES):
                setattr(o, k, CoopRLock())
                n += 1
    return n


class Scheduler:
    def __init__(self, fns, preemptions=(), watchdog_s=120.0):
        self.fns = fns
        self.n = len(fns)
        self.pre = {g: t for g, t in preemptions}
        self.sems = [threading.Semaphore(0) for _ in fns]
        self.done_evt = threading.Semaphore(0)
        self.finished = [False] * self.n
        self.blocked_on = [None] * self.n
        self.results = [None] * self.n
        self.errors = [None] * self.n
        self.current = None
        self.gidx = 0
        self.trace = []           # (global index, tid, where) of yield points
        self.taken = []           # preemptions actually taken: (g, from, to, where)
        self.deadlock = False
        self.watchdog_s = watchdog_s
        self._files = {}
        self.record_where = False

    # -- tracing ---------------------------------------------------------------------------
    def _kind(self, filename):
        k = self._files.get(filename)
        if k is None:
            if MARK in filename:
                k = 2 if os.path.basename(filename) in LINE_FILES else 1
            else:
                k = 0
            self._files[filename] = k
        return k

    def _tracer(self, frame, event, arg):
        if event != "call":
            return None
        k = self._kind(frame.f_code.co_filename)
        if k == 0:
            return None
        tid = current_tid()
        if tid is None:
            return None
        if k == 1:
            self.yield_point(tid, frame)
            return None
        self.yield_point(tid, frame)
        return self._line_tracer

    def _line_tracer(self, frame, event, arg):
        if event == "line":
            tid = current_tid()
            if tid is not None:
                self.yield_point(tid, frame)
        return self._line_tracer

    # -- scheduling ------------------------------------------------------------------------
    def _runnable(self, exclude=None):
        return [t for t in range(self.n) if not self.finished[t] and self.blocked_on[t] is None and t != exclude]

    def yield_point(self, tid, frame):
        g = self.gidx
        self.gidx += 1
        if self.record_where:
            self.trace.append((g, tid, "%s:%d" % (os.path.basename(frame.f_code.co_filename), frame.f_lineno)))
        target = self.pre.get(g)
        if target is not None and 0 <= target < self.n and target != tid and not self.finished[target] and self.blocked_on[target] is None:
            self.taken.append((g, tid, target, "%s:%s:%d" % (os.path.basename(frame.f_code.co_filename), frame.f_code.co_name, frame.f_lineno)))
            self._switch(tid, target)

    def _switch(self, me, target):
        self.current = target
        self.sems[target].release()
        self._wait(me)

    def _wait(self, me):
        if not self.sems[me].acquire(timeout=self.watchdog_s):
            raise HarnessError("scheduler watchdog: thread %d was not rescheduled within %.0fs" % (me, self.watchdog_s))

    def block(self, me, lock):
        self.blocked_on[me] = lock
        nxt = self._runnable(exclude=me)
        if not nxt:
            self.deadlock = True
            self.blocked_on[me] = None
            raise DeadlockError("all threads blocked")
        self._switch(me, nxt[0])

    def wake(self, lock):
        for t in range(self.n):
            if self.blocked_on[t] is lock:
                self.blocked_on[t] = None

    def _thread_main(self, tid):
        _tls.tid = tid
        self._wait(tid)
        sys.settrace(self._tracer)
        try:
            self.results[tid] = ("ok", self.fns[tid]())
        except BaseException as e:  # noqa
            self.results[tid] = ("exc", e)
        finally:
            sys.settrace(None)
            self.finished[tid] = True
            nxt = self._runnable()
            if nxt:
                self.current = nxt[0]
                self.sems[nxt[0]].release()
            else:
                self.done_evt.release()

    def run(self):
        global _active
        if _active is not None:
            raise HarnessError("nested schedulers")
        _active = self
        threads = [threading.Thread(target=self._thread_main, args=(t,), daemon=True) for t in range(self.n)]
        try:
            for th in threads:
                th.start()
            self.current = 0
            self.sems[0].release()
            if not self.done_evt.acquire(timeout=self.watchdog_s * 2):
                stuck = [t for t in range(self.n) if not self.finished[t]]
                if stuck and all(self.blocked_on[t] is not None for t in stuck):
                    self.deadlock = True
                else:
                    raise HarnessError("scheduler watchdog: execution did not finish (unfinished threads %r)" % stuck)
            for th in threads:
                th.join(timeout=1.0)
        finally:
            _active = None
        return self.results


class DeadlockError(RuntimeError):
    pass

"""
Core of the check framework: outcomes, statistics, Hypothesis-driven search with
collect-by-signature, exhaustive enumeration helper, known-findings matching.

A *case* is always a plain JSON value. `execute(case) -> Outcome` is a pure function of the
code under /repo and the case; it never touches Hypothesis, an RNG or the clock.
"""
import hashlib
import json
import os
import sys
import time
import traceback


def canon(case) -> str:
    return json.dumps(case, sort_keys=True, separators=(",", ":"), default=str)


def case_hash(case) -> str:
    return hashlib.sha1(canon(case).encode("utf-8")).hexdigest()[:16]


def hash64(*parts) -> int:
    h = hashlib.sha256("|".join(str(p) for p in parts).encode()).digest()
    return int.from_bytes(h[:8], "big") >> 1


class Outcome:
    """What one executed case showed."""

    def __init__(self, violations=None, nontrivial=False, labels=(), render=None, excluded=0,
                 nt_key=None):
        # each violation: {"signature": {...}, "message": "..."}
        self.violations = list(violations or [])
        self.nontrivial = bool(nontrivial)
        self.labels = list(labels)
        self.render = render
        self.excluded = excluded
        # key under which non-trivial cases are counted as distinct (default: whole case)
        self.nt_key = nt_key

    def violation(self, message, **signature):
        self.violations.append({"signature": signature, "message": str(message)[:2000]})


class HarnessError(Exception):
    """Something is wrong with the harness itself (never reported as a violation)."""


LIVE = []   # Stats objects of this process, newest last (dumped by the worker when it is told to stop)


class Stats:
    """Per-shard accumulator; JSON-serialisable via to_json()."""

    MAX_SAMPLES = 4

    def __init__(self):
        LIVE.append(self)
        self.evaluations = 0
        self.nontrivial = set()
        self.labels = {}
        self.samples = []
        self.violations = []  # {"signature","message","case"}
        self.known_hits = {}  # finding id -> count
        self.excluded = 0
        self.exhaustive = None
        self.truncated = False
        self.extra = {}
        self._sample_slots = 0

    def record(self, case, outcome: Outcome):
        self.evaluations += 1
        self.excluded += outcome.excluded
        for lab in outcome.labels:
            self.labels[lab] = self.labels.get(lab, 0) + 1
        if outcome.nontrivial:
            key = outcome.nt_key if outcome.nt_key is not None else case
            h = case_hash(key)
            if h not in self.nontrivial:
                self.nontrivial.add(h)
                # keep the first few and then a sparse selection of non-trivial cases as samples
                self._sample_slots += 1
                n = self._sample_slots
                if len(self.samples) < self.MAX_SAMPLES:
                    self.samples.append(outcome.render if outcome.render is not None else case)
                elif n & (n - 1) == 0:  # powers of two: later, typically bigger cases
                    self.samples[(n.bit_length()) % self.MAX_SAMPLES] = (
                        outcome.render if outcome.render is not None else case
                    )

    def add_violation(self, case, v):
        self.violations.append({"signature": v["signature"], "message": v["message"], "case": case})

    def to_json(self):
        return {
            "evaluations": self.evaluations,
            "nontrivial": sorted(self.nontrivial),
            "labels": self.labels,
            "samples": self.samples,
            "violations": self.violations,
            "known_hits": self.known_hits,
            "excluded": self.excluded,
            "exhaustive": self.exhaustive,
            "truncated": self.truncated,
            "extra": self.extra,
        }


# ------------------------------------------------------------------------------------------
# known findings
# ------------------------------------------------------------------------------------------

FINDINGS_FILE = os.path.join(os.path.dirname(os.path.dirname(os.path.abspath(__file__))),
                             "known_findings.txt")


def load_findings(property_id=None):
    """
    Lines of known_findings.txt:
      fixed: property=<id> <commit> <what failed>
      finding: property=<id> id=<slug> witness=<path> signature=<json> :: <what fails>
    Only 'finding:' lines suppress anything. The file is never written at run time.
    """
    out = []
    if not os.path.exists(FINDINGS_FILE):
        return out
    for line in open(FINDINGS_FILE):
        line = line.strip()
        if not line.startswith("finding:"):
            continue
        head, _, what = line.partition(" :: ")
        fields = {}
        rest = head[len("finding:"):].strip()
        # signature json is the last field
        pre, _, sig = rest.partition(" signature=")
        for tok in pre.split():
            k, _, v = tok.partition("=")
            fields[k] = v
        fields["signature"] = json.loads(sig)
        fields["what"] = what
        if property_id is None or fields.get("property") == property_id:
            out.append(fields)
    return out


def match_finding(signature, findings):
    for f in findings:
        pat = f["signature"]
        if all(signature.get(k) == v for k, v in pat.items()):
            return f
    return None


# ------------------------------------------------------------------------------------------
# search drivers
# ------------------------------------------------------------------------------------------

class _Found(Exception):
    def __init__(self, violation):
        super().__init__(violation["message"])
        self.violation = violation


def sig_key(sig):
    return canon(sig)


def hyp_search(strategy, execute, stats: Stats, *, max_examples, seed, findings=(),
               shrink=True, max_rounds=4, deadline_s=None, stateful_machine=None):
    """
    Drive `execute` with cases drawn from `strategy` (Hypothesis). A violation whose signature
    matches a known finding is counted, not raised. A new violation is shrunk by Hypothesis
    (or taken as is when shrink=False), recorded once per signature, and the search is resumed
    with that signature excluded, so that a shallow defect does not hide what lies behind it.
    """
    import hypothesis
    from hypothesis import given, settings, HealthCheck, Phase

    found_sigs = set()
    shrink_budget_s = float(os.environ.get("VERIF_SHRINK_BUDGET_S") or 60)
    t_end = (time.time() + deadline_s) if deadline_s else None
    remaining = max_examples
    rounds = 0
    while remaining > 0 and rounds < max_rounds:
        rounds += 1
        last_failure = {}
        counted = {"n": 0}

        def body(case):
            if t_end and time.time() > t_end:
                stats.truncated = True
                return
            if last_failure and time.time() - last_failure["t0"] > shrink_budget_s \
                    and case_hash(case) != last_failure["hash"]:
                # shrinking has had its share of time: every further candidate counts as "does not fail", so that
                # Hypothesis settles on the smallest failing case found so far (which is executed again normally)
                return
            outcome = execute(case)
            counted["n"] += 1
            stats.record(case, outcome)
            for v in outcome.violations:
                f = match_finding(v["signature"], findings)
                if f is not None:
                    stats.known_hits[f["id"]] = stats.known_hits.get(f["id"], 0) + 1
                    continue
                if sig_key(v["signature"]) in found_sigs:
                    continue
                last_failure["case"] = case
                last_failure["v"] = v
                last_failure["hash"] = case_hash(case)
                last_failure.setdefault("t0", time.time())
                raise _Found(v)

        phases = [Phase.explicit, Phase.generate] + ([Phase.shrink] if shrink else [])
        test = settings(
            max_examples=remaining,
            database=None,
            deadline=None,
            derandomize=False,
            report_multiple_bugs=False,
            phases=phases,
            suppress_health_check=list(HealthCheck),
            print_blob=False,
        )(hypothesis.seed(hash64(seed, rounds))(given(strategy)(body)))
        try:
            test()
            remaining = 0
        except _Found:
            v = last_failure["v"]
            found_sigs.add(sig_key(v["signature"]))
            stats.add_violation(last_failure["case"], v)
            remaining -= max(counted["n"], 1)
        except hypothesis.errors.Flaky as e:  # a flaky oracle is a harness problem
            raise HarnessError("flaky execution under Hypothesis: %s" % e)
        if stats.truncated:
            break
    return stats


def enum_search(cases, execute, stats: Stats, *, findings=(), shard=0, nshards=1,
                deadline_s=None, max_violations=20):
    """Run `execute` on every case of an iterable whose index falls into this shard."""
    t_end = (time.time() + deadline_s) if deadline_s else None
    seen = set()
    complete = True
    for i, case in enumerate(cases):
        if i % nshards != shard:
            continue
        if t_end and time.time() > t_end:
            stats.truncated = True
            complete = False
            break
        outcome = execute(case)
        stats.record(case, outcome)
        for v in outcome.violations:
            f = match_finding(v["signature"], findings)
            if f is not None:
                stats.known_hits[f["id"]] = stats.known_hits.get(f["id"], 0) + 1
                continue
            k = sig_key(v["signature"])
            if k in seen:
                continue
            seen.add(k)  # first case per signature: enumeration is by increasing size
            if len(stats.violations) < max_violations:
                stats.add_violation(case, v)
    return complete


def ddmin(ops, still_fails, max_tests=60):
    """Small delta-debugging of a list (used when Hypothesis shrinking is switched off)."""
    tests = 0
    n = 2
    ops = list(ops)
    while len(ops) >= 2 and tests < max_tests:
        chunk = max(1, len(ops) // n)
        reduced = False
        for i in range(0, len(ops), chunk):
            cand = ops[:i] + ops[i + chunk:]
            tests += 1
            if cand and still_fails(cand):
                ops = cand
                n = max(n - 1, 2)
                reduced = True
                break
            if tests >= max_tests:
                break
        if not reduced:
            if chunk == 1:
                break
            n = min(n * 2, len(ops))
    return ops

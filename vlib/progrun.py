"""Child-side driver for generated programs (runs inside a forked child or a real subprocess)."""
import importlib
import linecache
import os
import sys


def write_files(root, files):
    for rel, text in files.items():
        p = os.path.join(root, rel)
        os.makedirs(os.path.dirname(p), exist_ok=True)
        with open(p, "w") as f:
            f.write(text)


_cell_n = [0]


_DEF_RE = None


def exec_cell(module, src):
    """
    Execute one notebook-style cell in the module's namespace. A cell that defines a function keeps ITS file name when
    it is executed again with edited text (as a re-run cell / a reloaded source file does): the new function then has
    the same co_filename and first line as the one it replaces. Other statements get a fresh name each time.
    """
    global _DEF_RE
    import re
    if _DEF_RE is None:
        _DEF_RE = re.compile(r"^def\s+([A-Za-z_][A-Za-z_0-9]*)\s*\(", re.M)
    m_ = _DEF_RE.search(src)
    if m_:
        fn = "<verif-cell-%s.%s>" % (module.__name__, m_.group(1))
    else:
        _cell_n[0] += 1
        fn = "<verif-cell-%d>" % _cell_n[0]
    linecache.cache[fn] = (len(src), None, src.splitlines(True), fn)
    exec(compile(src, fn, "exec"), module.__dict__)


def redefine_from_file(module, pkgroot, files, names):
    """
    The module's source file is overwritten with the edited text and the definitions `names` are executed again from
    it, compiled under the file's own name at their own line numbers (what re-running a definition from an edited file
    does): a function whose text kept its position has the same co_filename / co_firstlineno as the one it replaces.
    """
    import ast
    write_files(pkgroot, files)
    path = module.__file__
    linecache.checkcache(path)
    with open(path) as f:
        text = f.read()
    linecache.cache[path] = (len(text), None, text.splitlines(True), path)
    tree = ast.parse(text, path)
    for name in names:
        nodes = [n for n in tree.body if (isinstance(n, ast.FunctionDef) and n.name == name)
                 or (isinstance(n, ast.Assign) and any(isinstance(t, ast.Name) and t.id == name for t in n.targets))]
        for node in nodes:
            exec(compile(ast.Module(body=[node], type_ignores=[]), path, "exec"), module.__dict__)


def modules_from_cells(pkg, modules, cells):
    """
    Build the package in memory, notebook style: every definition is its own compilation unit.
    (CPython compiles `mod.attr(...)` differently depending on whether `import mod` is part of the
    same compilation unit, so a function defined in a cell and the same text in a module file have
    different bytecode; both sides of a comparison must be built the same way.)
    """
    import types
    p = types.ModuleType(pkg)
    p.__path__ = []
    p.__package__ = pkg
    sys.modules[pkg] = p
    mods = {}
    for mname in modules:
        mod = types.ModuleType("%s.%s" % (pkg, mname))
        mod.__package__ = pkg
        sys.modules["%s.%s" % (pkg, mname)] = mod
        setattr(p, mname, mod)
        mods[mname] = mod
    for mname, src in cells:
        exec_cell(mods[mname], src)
    return mods


def setup_memento(store_dir):
    import twosigma.memento as m
    from twosigma.memento.storage_filesystem import FilesystemStorageBackend
    env = m.Environment(name="verif", base_dir=store_dir, repos=[m.ConfigurationRepository(
        name="repo", clusters={"c": m.FunctionCluster(name="c", storage=FilesystemStorageBackend(
            path=os.path.join(store_dir, "cluster-c")))})])
    m.Environment.set(env)


def import_program(pkgroot, pkg, modules):
    if pkgroot not in sys.path:
        sys.path.insert(0, pkgroot)
    importlib.invalidate_caches()
    return {mname: importlib.import_module(pkg if mname == "__init__" else "%s.%s" % (pkg, mname)) for mname in modules}


def call_outcome(fn, *args):
    try:
        return {"ok": fn(*args)}
    except BaseException as e:  # noqa
        return {"exc": type(e).__name__, "msg": str(e)[:300]}


def run_segment(spec):
    """
    spec = {"pkgroot","pkg","modules","store","identity":bool,
            "steps":[{"cells":[[mod, src],...]}...],   # step 0 has no cells (fresh import)
            "roots":[[mod, name, presentation]], "args":[ints], "repeat":2, "query_versions": bool}
    Returns [{"results": {root: [[outcome per repeat] per arg]}, "trace": [...], "versions": {...}} per step].
    """
    import verif_rt
    if not spec["identity"]:
        setup_memento(spec["store"])
    mods = import_program(spec["pkgroot"], spec["pkg"], spec["modules"])
    out = []
    held = {}
    for step in spec["steps"]:
        for mname, src in step.get("cells", []):
            exec_cell(mods[mname], src)
        if step.get("redef"):
            for mname in sorted({m_ for m_, _ in step["redef"]}):
                redefine_from_file(mods[mname], spec["pkgroot"], step["files"], [n for m_, n in step["redef"] if m_ == mname])
        verif_rt.take()
        results = {}
        versions = {}
        for mname, name, pres in spec["roots"]:
            fn = getattr(mods[mname], name, None)
            if fn is None:
                continue
            key = "%s.%s" % (mname, name)
            if not spec["identity"]:
                if pres == "partial":
                    call = lambda a, fn=fn: fn.partial(a)()  # noqa: E731
                elif pres == "force_local":
                    call = lambda a, fn=fn: fn.force_local()(a)  # noqa: E731
                elif pres == "held-clone":
                    # one force_local() clone is created at the first call and kept across later in-process edits
                    call = lambda a, fn=fn, key=key: held.setdefault(key, fn.force_local())(a)  # noqa: E731
                elif pres == "partial+force_local":       # two chained modifiers
                    call = lambda a, fn=fn: fn.partial(a).force_local()()  # noqa: E731
                elif pres == "ctx+partial":
                    call = lambda a, fn=fn: fn.with_context_args({}).partial(a)()  # noqa: E731
                elif pres == "force_local+ignore+partial":
                    call = lambda a, fn=fn: fn.force_local().partial(a).force_local()()  # noqa: E731
                else:
                    call = fn
            else:
                call = fn
            results[key] = [[call_outcome(call, a) for _ in range(spec.get("repeat", 2))] for a in spec["args"]]
            if spec.get("query_versions") and not spec["identity"]:
                try:
                    versions[key] = fn.version()
                except BaseException as e:  # noqa
                    versions[key] = "!%s: %s" % (type(e).__name__, str(e)[:200])
        out.append({"results": results, "trace": verif_rt.take(), "versions": versions})
    return out


def run_versions(spec):
    """
    spec = {"pkgroot","pkg","modules","store","query":[[mod,name]...],"roots":[[mod,name]...],"args":[...],"call":bool}
    -> {"versions": {mod.name: version}, "results": {...}, "trace": [...]}
    """
    import verif_rt
    setup_memento(spec["store"])
    mods = import_program(spec["pkgroot"], spec["pkg"], spec["modules"])
    # optional in-process statements (re-binding / mutating a variable) executed after the import and after every
    # version has been asked for once (so that the in-process version cache is warm), before the recorded queries
    if spec.get("pre_cells"):
        for mname, name in sorted(spec["query"]):
            try:
                getattr(mods[mname], name).version()
            except BaseException:  # noqa
                pass
    for mname, src in spec.get("pre_cells", []):
        exec_cell(mods[mname], src)
    versions = {}
    for mname, name in spec["query"]:
        fn = getattr(mods[mname], name)
        try:
            versions["%s.%s" % (mname, name)] = fn.version()
        except BaseException as e:  # noqa
            versions["%s.%s" % (mname, name)] = "!%s: %s" % (type(e).__name__, str(e)[:200])
    verif_rt.take()
    results = {}
    if spec.get("call"):
        for mname, name in spec["roots"]:
            fn = getattr(mods[mname], name)
            results["%s.%s" % (mname, name)] = [call_outcome(fn, a) for a in spec["args"]]
    return {"versions": versions, "results": results, "trace": verif_rt.take()}


if __name__ == "__main__":
    import json
    spec = json.load(open(sys.argv[1]))
    res = run_versions(spec)
    sys.stdout.write("\n@@RESULT@@" + json.dumps(res) + "\n")


def _deps_of(mods, fns):
    deps = {}
    for mname, name in fns:
        fn = getattr(mods[mname], name)
        key = "%s.%s" % (mname, name)
        try:
            g = fn.dependencies()
            df = g.df()
            deps[key] = {
                "trans": sorted(x.qualified_name_without_version for x in g.transitive_memento_fn_dependencies()),
                "direct": sorted(x.qualified_name_without_version for x in g.direct_memento_fn_dependencies()),
                "df": sorted([str(r["src"]), str(r["target"])] for _, r in df.iterrows()) if df is not None else [],
            }
        except BaseException as e:  # noqa
            deps[key] = {"error": "%s: %s" % (type(e).__name__, str(e)[:300])}
    return deps


def run_deps(spec):
    """
    spec = {"pkgroot","pkg","modules","store","identity","fns":[[mod,name]], "roots":[[mod,name]], "args":[...]}
    -> {"deps": {mod.name: {"trans":[..],"direct":[..],"df":[[src,target]..]}}, "results": {...}}
    """
    import verif_rt
    if not spec["identity"]:
        setup_memento(spec["store"])
    mods = import_program(spec["pkgroot"], spec["pkg"], spec["modules"])
    deps = {}
    if not spec["identity"]:
        deps = _deps_of(mods, spec["fns"])
    verif_rt.take()
    results = {}
    for mname, name in spec["roots"]:
        fn = getattr(mods[mname], name)
        if spec.get("chained") and not spec["identity"]:
            # the first argument is called directly, the others through two chained modifiers (same memo key)
            calls = [fn] + [(lambda a, fn=fn: fn.partial(a).force_local()()), (lambda a, fn=fn: fn.force_local().partial(a)())]
            results["%s.%s" % (mname, name)] = [call_outcome(calls[i % 3], a) for i, a in enumerate(spec["args"])]
        else:
            results["%s.%s" % (mname, name)] = [call_outcome(fn, a) for a in spec["args"]]
    out = {"deps": deps, "results": results}
    if spec.get("passing") and not spec["identity"]:
        # the same roots called with memento functions handed over in the context arguments (such functions may be
        # called although they are outside the closure), then called again without them on a new argument
        handed = [getattr(mods[m_], n_) for m_, n_ in spec["passing"]]
        out["passed"], out["after"] = {}, {}
        for mname, name in spec["roots"]:
            fn = getattr(mods[mname], name)
            key = "%s.%s" % (mname, name)
            out["passed"][key] = call_outcome(fn.with_context_args({"handed": handed}), spec["pass_arg"])
            out["after"][key] = call_outcome(fn, spec["after_arg"])
    if spec.get("evolve_cells") and not spec["identity"]:
        # in-process evolution without any memento registration (a plain helper is re-defined), then the closures again
        for mname, src in spec["evolve_cells"]:
            exec_cell(mods[mname], src)
        out["deps2"] = _deps_of(mods, spec["fns"])
    return out


def run_provenance(spec):
    """
    One edition of a program on a persistent store (C10, editions part): the roots are called, then every memento in the
    store is read back through NEW backend objects (from the files) and reported with its dependency set and invocations.
    spec = {"pkgroot","pkg","modules","store","roots":[[mod,name]],"args":[...]}
    """
    import twosigma.memento as m
    import verif_rt
    setup_memento(spec["store"])
    mods = import_program(spec["pkgroot"], spec["pkg"], spec["modules"])
    verif_rt.take()
    results = {}
    for mname, name in spec["roots"]:
        fn = getattr(mods[mname], name)
        results["%s.%s" % (mname, name)] = [call_outcome(fn, a) for a in spec["args"]]
    ran = [r if isinstance(r, str) else r[0] for r in verif_rt.take()]
    setup_memento(spec["store"])
    dump = []
    for cn in (None, "c"):
        st = m.Environment.get().get_cluster(cn).storage
        for ref in st.list_functions():
            for mem in st.list_mementos(ref, None):
                r = mem.invocation_metadata.fn_reference_with_args
                dump.append({"qn": r.fn_reference.qualified_name, "h": r.arg_hash,
                             "deps": sorted(f.qualified_name for f in mem.function_dependencies),
                             "inv": [[i.fn_reference.qualified_name, i.arg_hash] for i in mem.invocation_metadata.invocations]})
    return {"results": results, "ran": ran, "dump": dump}


def run_events(spec):
    """
    In-process event history with version queries (C13).
    spec = {"pkgroot","pkg","modules","store","steps":[{"lock":None|bool,"cells":[[mod,src]],"queries":[[mod,name,kind]]}]}
    -> [ {"mod.name|kind": version | "!Error: ..."} per step ]
    """
    import twosigma.memento as m
    from twosigma.memento.types import MementoFunctionType
    setup_memento(spec["store"])
    if spec.get("init_cells") is not None:
        mods = modules_from_cells(spec["pkg"], spec["modules"], spec["init_cells"])
    else:
        mods = import_program(spec["pkgroot"], spec["pkg"], spec["modules"])
    out = []
    for step in spec["steps"]:
        if step.get("lock") is not None:
            for cn in (None, "c"):
                m.Environment.get().get_cluster(cn).locked = bool(step["lock"])
        for mname, src in step.get("cells", []):
            exec_cell(mods[mname], src)
        res = {}
        for mname, name, kind in step.get("queries", []):
            fn = getattr(mods[mname], name, None)
            key = "%s.%s|%s" % (mname, name, kind)
            if not isinstance(fn, MementoFunctionType):
                res[key] = None
                continue
            try:
                if kind == "plain":
                    res[key] = fn.version()
                elif kind == "ref":
                    res[key] = fn.fn_reference().qualified_name.split("#", 1)[1]
                elif kind == "partial":
                    res[key] = fn.partial(1).version()
                elif kind == "force_local":
                    res[key] = fn.force_local().version()
                elif kind == "ctx":
                    res[key] = fn.with_context_args({"k": 1}).version()
                elif kind == "unregistered":
                    res[key] = m.MementoFunction(fn.fn, cluster_name=fn.cluster_name, register_fn=False).version()
            except BaseException as e:  # noqa
                res[key] = "!%s: %s" % (type(e).__name__, str(e)[:200])
        out.append(res)
    return out


def setup_clusters(store_dir, clusters, backend="fs"):
    import twosigma.memento as m
    from twosigma.memento.storage_filesystem import FilesystemStorageBackend
    from twosigma.memento.storage_memory import MemoryStorageBackend
    cl = {}
    for i, name in enumerate(clusters):
        st = MemoryStorageBackend() if backend == "mem" else FilesystemStorageBackend(path=os.path.join(store_dir, "cl%d" % i))
        cl[name] = m.FunctionCluster(name=name, storage=st)
    m.Environment.set(m.Environment(name="verif", base_dir=store_dir,
                                    repos=[m.ConfigurationRepository(name="repo", clusters=cl)]))


def _safe(fn):
    try:
        return {"ok": fn()}
    except BaseException as e:  # noqa
        import traceback
        tb = traceback.extract_tb(e.__traceback__)
        where = next(("%s:%s" % (os.path.basename(f.filename), f.name) for f in reversed(tb) if "twosigma" in f.filename), "?")
        return {"exc": type(e).__name__, "msg": str(e)[:300], "where": where}


def run_names(spec):
    """
    C12 probes. spec = {"pkg","modules","store","clusters":[...],"backend","segments":[{"init_cells":..}|{"cells":..}],
                        "probe":[mod, name], "arg": int, "cluster": name|None}
    Each segment element is one *step*: optional cells, then the probes. -> list of probe results.
    """
    import twosigma.memento as m
    import verif_rt
    setup_clusters(spec["store"], spec["clusters"], spec.get("backend", "fs"))
    mods = modules_from_cells(spec["pkg"], spec["modules"], spec["init_cells"])
    out = []
    for step in spec["steps"]:
        for mname, src in step.get("cells", []):
            exec_cell(mods[mname], src)
        mname, name = spec["probe"]
        fn = getattr(mods[mname], name)
        verif_rt.take()
        res = {}
        res["call1"] = _safe(lambda: fn(spec["arg"]))
        res["trace1"] = verif_rt.take()
        res["call2"] = _safe(lambda: fn(spec["arg"]))
        res["trace2"] = verif_rt.take()
        res["qualified_name"] = _safe(lambda: fn.fn_reference().qualified_name)

        def memento_view():
            mem = fn.memento(spec["arg"])
            if mem is None:
                return None
            return {"qn": mem.invocation_metadata.fn_reference_with_args.fn_reference.qualified_name,
                    "invocations": [[r.fn_reference.qualified_name, bool(r.fn_reference.external)] for r in mem.invocation_metadata.invocations],
                    "deps": sorted([f.qualified_name, bool(f.external)] for f in mem.function_dependencies)}
        res["memento"] = _safe(memento_view)
        res["list_mementos"] = _safe(lambda: [x.invocation_metadata.fn_reference_with_args.fn_reference.qualified_name for x in fn.list_mementos()])
        res["list_functions"] = _safe(lambda: sorted(r.qualified_name for r in m.list_memoized_functions(spec.get("cluster"))))
        res["parse"] = _safe(lambda: m.FunctionReference.parse_qualified_name(fn.fn_reference().qualified_name))

        def external_view():
            # stored functions whose version no longer exists in this process are handed out as external references:
            # the stub behind such a reference, and every modifier clone of it, must still name the stored version
            view = []
            for r in m.list_memoized_functions(spec.get("cluster")):
                if r.external:
                    stub = r.memento_fn
                    clone = stub.force_local()
                    view.append({"qn": r.qualified_name, "stub_version": stub.version(), "clone_qn": clone.fn_reference().qualified_name,
                                 "via_stub": len(stub.list_mementos() or []), "via_clone": len(clone.list_mementos() or [])})
            return view
        res["external_refs"] = _safe(external_view)
        if spec.get("fnarg"):
            # a stored entry whose *arguments* contain a memento function that may later vanish
            fa = getattr(mods["a"], "fa")
            callee = getattr(mods["a"], spec["fnarg"], None)
            if len(out) == 0 and callee is not None and spec.get("fnarg_store", True):
                res["fnarg_call"] = _safe(lambda: fa(callee, spec["arg"]))

            def fa_view():
                view = []
                for mem in fa.list_mementos():
                    r = mem.invocation_metadata.fn_reference_with_args
                    a0 = (list(r.args) + [r.kwargs.get("fn_arg")])[0]
                    ref = a0.fn_reference() if hasattr(a0, "fn_reference") else None
                    view.append([r.fn_reference.qualified_name, ref.qualified_name if ref else repr(a0), bool(ref.external) if ref else None])
                return view
            res["fnarg_list"] = _safe(fa_view)
        res["versions"] = {}
        for mn, mod in mods.items():
            for k, v in list(vars(mod).items()):
                if hasattr(v, "fn_reference") and hasattr(v, "fn") and not k.startswith("_"):
                    res["versions"]["%s.%s" % (mn, k)] = _safe(lambda v=v: v.fn_reference().qualified_name)
        out.append(res)
    return out

"""
E2 - storage operation interpreter with a dictionary model.

A case is {"budget_kb": float|None, "shared_meta": bool, "backends": [...], "sweep": mode,
"ops": [op, ...]}; an op is a JSON list: [name, args...]. The same interpreter is used by the
generators, the exhaustive enumerators and the replay tier.
"""
import datetime
import hashlib
import os
import random

import twosigma.memento as m
from twosigma.memento.metadata import Memento, InvocationMetadata, ResultType
from twosigma.memento.reference import FunctionReferenceWithArgHash
from twosigma.memento.storage_filesystem import FilesystemStorageBackend
from twosigma.memento.storage_memory import MemoryStorageBackend
from twosigma.memento.types import DataSourceKey

from . import hfuncs, values, fsaudit
from .core import Outcome, HarnessError
from .excs import lib_exception_signature


T0 = datetime.datetime(2020, 1, 2, 3, 4, 5, tzinfo=datetime.timezone.utc)


class Store:
    def __init__(self, kind, root, budget_mb=None, shared_meta=True, read_only=None, construct="kw", decoy_refs=()):
        # construct: "kw" - keyword arguments only; "config+kw" - a configuration dict that was used before for another
        # store, whose values (other path, larger cache) the keyword arguments override ("Parameters that follow `config`
        # override its values")
        self.construct = construct
        self.decoy_refs = list(decoy_refs)
        self.cfg = None
        self.kind = kind  # "fs" | "fsc" | "mem"
        self.root = root
        self.budget_mb = budget_mb if kind == "fsc" else None
        self.shared_meta = shared_meta
        self.read_only = read_only
        self.data_path = os.path.join(root, "data")
        self.meta_path = self.data_path if shared_meta else os.path.join(root, "meta")
        self.backend = None
        self.open()

    def open(self):
        if self.kind == "mem":
            if self.backend is None:
                self.backend = MemoryStorageBackend(read_only=self.read_only)
            return
        if self.construct == "config+kw":
            if self.cfg is None:
                self.cfg = {"type": "filesystem"}
                if self.kind == "fsc":
                    self.cfg["memory_cache_mb"] = 64
                # an earlier store made from the very same dict (a base configuration reused with another path); it holds
                # results for the calls this session is going to make, none of which belongs to the store under test
                decoy = FilesystemStorageBackend(config=self.cfg, path=os.path.join(self.root, "decoy"))
                for r in self.decoy_refs:
                    decoy.memoize(None, make_memento(r, "decoy"), "decoy")
            self.backend = FilesystemStorageBackend(
                config=self.cfg, path=self.data_path, metadata_path=None if self.shared_meta else self.meta_path,
                memory_cache_mb=self.budget_mb, read_only=self.read_only)
            return
        self.backend = FilesystemStorageBackend(
            path=self.data_path, metadata_path=None if self.shared_meta else self.meta_path,
            memory_cache_mb=self.budget_mb, read_only=self.read_only)

    @property
    def is_fs(self):
        return self.kind != "mem"

    def label(self):
        return self.kind + ("" if self.shared_meta or self.kind == "mem" else "+meta")


def make_memento(ref_with_args, value, t=T0):
    return Memento(
        time=t,
        invocation_metadata=InvocationMetadata(
            fn_reference_with_args=ref_with_args, invocations=[], resources=[],
            runtime=datetime.timedelta(seconds=1.5), result_type=ResultType.from_object(value)),
        function_dependencies={ref_with_args.fn_reference},
        runner={"type": "local"}, correlation_id="cid_verif", content_key=None)


def arg_value(arg):
    """the argument of a call in a history: a small integer, or a token standing for a structured value"""
    if not isinstance(arg, str):
        return arg
    tz = datetime.timezone(datetime.timedelta(hours=5, minutes=30))
    return {"@dt530": datetime.datetime(2021, 3, 4, 5, 6, 7, tzinfo=tz), "@naive": datetime.datetime(2021, 3, 4, 5, 6, 7),
            "@date": datetime.date(2021, 3, 4), "@nested": {"k": [1, {"z": None, "a": 2.5}], "b": "t\u00e9"}, "@float": 1.0}[arg]


class Session:
    """Drives several stores in lock-step against one dictionary model."""

    def __init__(self, scratch, case, stores=None):
        self.case = case
        # (the memory cache estimates the size of large frames from a random row sample drawn with numpy's global generator)
        import numpy
        numpy.random.seed(0)
        self.refs = hfuncs.refs()
        budget_kb = case.get("budget_kb")
        self.budget_mb = (budget_kb / 1024.0) if budget_kb else None
        decoy_refs = []
        if case.get("construct") == "config+kw" and stores is None:
            seen = set()
            for op in case["ops"]:
                pairs = [op[1:3]] if op[0] in ("memoize", "read", "get", "is") else (op[1] if op[0] in ("isall", "getmany") else [])
                for f, a in pairs:
                    if (f, a) not in seen:
                        seen.add((f, a))
                        decoy_refs.append(self.refs[f].with_args(arg_value(a)))
            self.labels_init = {"config-dict-reused"}
        self.stores = stores if stores is not None else [
            Store(kind, os.path.join(scratch, kind), budget_mb=self.budget_mb,
                  shared_meta=case.get("shared_meta", True), construct=case.get("construct", "kw"), decoy_refs=decoy_refs)
            for kind in case.get("backends", ["fs", "fsc", "mem"])
        ]
        self.model = {}       # (qn, arg_hash) -> entry dict
        self.touched = []     # [(fnkey, arg)] in first-touch order
        self.labels = set(getattr(self, "labels_init", ()))
        self.out = Outcome()
        self.step = -1
        self.forgotten = set()
        # results handed to memoize stay referenced, as a caller that keeps using a returned
        # value would do: keeps the cache's weak references alive
        self.keep = []

    # -- helpers -------------------------------------------------------------------------
    def rwa(self, fnkey, arg):
        return self.refs[fnkey].with_args(arg_value(arg))

    def key(self, fnkey, arg):
        r = self.rwa(fnkey, arg)
        return (r.fn_reference.qualified_name, r.arg_hash)

    def touch(self, fnkey, arg):
        if (fnkey, arg) not in self.touched:
            self.touched.append((fnkey, arg))

    def fail(self, store, symptom, message, **sig):
        self.out.violation(
            "[step %d %s on %s] %s" % (self.step, self.case["ops"][self.step] if 0 <= self.step < len(self.case["ops"]) else "final", store.label() if store else "-", message),
            symptom=symptom, backend=store.kind if store else None, **sig)

    def guarded(self, store, what, fn, *args, **kw):
        """Call a backend method; a library exception on a valid call is a violation."""
        try:
            return True, fn(*args, **kw)
        except Exception as e:  # noqa
            sig = lib_exception_signature(e)
            if sig is None:
                raise
            self.fail(store, "exception", "%s raised %r" % (what, e), op=what, **sig)
            return False, None

    # -- operations ----------------------------------------------------------------------
    def apply(self, op):
        name = op[0]
        # the library must not depend on the state of the global RNG (user code may seed it)
        random.seed(20240101)
        getattr(self, "op_" + name)(*op[1:])

    def op_memoize(self, fnkey, arg, vdesc, override=None):
        self.touch(fnkey, arg)
        k = self.key(fnkey, arg)
        if k in self.model:
            self.labels.add("rememoize-live")
        if k in self.forgotten:
            self.labels.add("forget-then-readd")
        for s in self.stores:
            value = values.build(vdesc)
            self.keep.append(value)
            mem = make_memento(self.rwa(fnkey, arg), value)
            self.guarded(s, "memoize", s.backend.memoize, override, mem, value)
        # custom metadata is keyed by call and survives a re-memoize of the same call
        self.model[k] = {"fnkey": fnkey, "arg": arg, "vdesc": vdesc, "override": override,
                         "meta": self.model.get(k, {}).get("meta", {})}
        if override:
            self.labels.add("override")

    def _check_memento(self, s, mem, fnkey, arg, where):
        k = self.key(fnkey, arg)
        want = self.model.get(k)
        if want is None:
            if mem is not None:
                self.fail(s, "resurrected" if k in self.forgotten else "phantom",
                          "%s returned a memento for absent call %s(%r)" % (where, fnkey, arg), op=where)
            return False
        if mem is None:
            self.fail(s, "lost", "%s found no memento for live call %s(%r)" % (where, fnkey, arg), op=where)
            return False
        fr = mem.invocation_metadata.fn_reference_with_args
        if fr.fn_reference.qualified_name != k[0] or fr.arg_hash != k[1]:
            self.fail(s, "wrong-memento", "%s returned memento of %s/%s for %s/%s" % (
                where, fr.fn_reference.qualified_name, fr.arg_hash, k[0], k[1]), op=where)
            return False
        value = values.build(want["vdesc"])
        if mem.invocation_metadata.result_type != ResultType.from_object(value):
            self.fail(s, "wrong-result-type", "%s: memento result_type %s but last value stored is %s" % (
                where, mem.invocation_metadata.result_type, ResultType.from_object(value)), op=where)
        return True

    def op_get(self, fnkey, arg):
        self.touch(fnkey, arg)
        r = self.rwa(fnkey, arg).fn_reference_with_arg_hash()
        for s in self.stores:
            ok, mem = self.guarded(s, "get_memento", s.backend.get_memento, r)
            if ok:
                self._check_memento(s, mem, fnkey, arg, "get_memento")
        if self.key(fnkey, arg) not in self.model:
            self.labels.add("lookup-absent")

    def op_read(self, fnkey, arg):
        self.touch(fnkey, arg)
        r = self.rwa(fnkey, arg).fn_reference_with_arg_hash()
        k = self.key(fnkey, arg)
        for s in self.stores:
            ok, mem = self.guarded(s, "get_memento", s.backend.get_memento, r)
            if not ok or not self._check_memento(s, mem, fnkey, arg, "get_memento"):
                continue
            ok, got = self.guarded(s, "read_result", s.backend.read_result, mem)
            if not ok:
                continue
            want = values.build(self.model[k]["vdesc"])
            try:
                same = values.typed_equal(want, got)
            except Exception as e:   # (a partition reads its members lazily)
                sig = lib_exception_signature(e)
                if sig is None:
                    raise
                self.fail(s, "exception", "the value returned by read_result(%s(%r)) raised %r when it was used" % (fnkey, arg, e), op="use_result", **sig)
                continue
            if not same:
                self.fail(s, "stale-or-wrong-value", "read_result(%s(%r)) returned %s, last value written is %s" % (
                    fnkey, arg, _short(got), _short(want)), op="read_result")

    def op_is(self, fnkey, arg):
        self.touch(fnkey, arg)
        r = self.rwa(fnkey, arg)
        want = self.key(fnkey, arg) in self.model
        for s in self.stores:
            ok, got = self.guarded(s, "is_memoized", s.backend.is_memoized, r.fn_reference, r.arg_hash)
            if ok and bool(got) != want:
                self.fail(s, "is-memoized-wrong", "is_memoized(%s(%r)) = %r, model says %r" % (fnkey, arg, got, want), op="is_memoized")
        if not want:
            self.labels.add("lookup-absent")

    def op_isall(self, pairs):
        rs = [self.rwa(f, a) for f, a in pairs]
        for f, a in pairs:
            self.touch(f, a)
        want = all(self.key(f, a) in self.model for f, a in pairs)
        for s in self.stores:
            ok, got = self.guarded(s, "is_all_memoized", s.backend.is_all_memoized, rs)
            if ok and bool(got) != want:
                self.fail(s, "is-memoized-wrong", "is_all_memoized(%r) = %r, model says %r" % (pairs, got, want), op="is_all_memoized")

    def op_getmany(self, pairs):
        rs = [self.rwa(f, a).fn_reference_with_arg_hash() for f, a in pairs]
        for f, a in pairs:
            self.touch(f, a)
        for s in self.stores:
            ok, got = self.guarded(s, "get_mementos", s.backend.get_mementos, rs)
            if not ok:
                continue
            if len(got) != len(pairs):
                self.fail(s, "wrong-length", "get_mementos returned %d results for %d queries" % (len(got), len(pairs)), op="get_mementos")
                continue
            for (f, a), mem in zip(pairs, got):
                self._check_memento(s, mem, f, a, "get_mementos")

    def op_forget_call(self, fnkey, arg):
        self.touch(fnkey, arg)
        r = self.rwa(fnkey, arg).fn_reference_with_arg_hash()
        for s in self.stores:
            self.guarded(s, "forget_call", s.backend.forget_call, r)
        k = self.key(fnkey, arg)
        if k in self.model:
            del self.model[k]
            self.forgotten.add(k)
            self.labels.add("forget-live")

    def op_forget_function(self, fnkey):
        ref = self.refs[fnkey]
        for s in self.stores:
            self.guarded(s, "forget_function", s.backend.forget_function, ref)
        for k in [k for k in self.model if k[0] == ref.qualified_name]:
            del self.model[k]
            self.forgotten.add(k)
            self.labels.add("forget-live")

    def op_forget_everything(self):
        for s in self.stores:
            self.guarded(s, "forget_everything", s.backend.forget_everything)
        for k in list(self.model):
            del self.model[k]
            self.forgotten.add(k)

    def op_list_functions(self):
        want = sorted({k[0] for k in self.model})
        for s in self.stores:
            ok, got = self.guarded(s, "list_functions", s.backend.list_functions)
            if not ok:
                continue
            names = sorted(r.qualified_name for r in got)
            if names != want:
                self.fail(s, "list-functions-wrong", "list_functions() = %r, live functions are %r" % (names, want), op="list_functions")

    def op_list_mementos(self, fnkey, limit=None):
        ref = self.refs[fnkey]
        live = sorted(k[1] for k in self.model if k[0] == ref.qualified_name)
        for s in self.stores:
            ok, got = self.guarded(s, "list_mementos", s.backend.list_mementos, ref, limit)
            if not ok:
                continue
            got = got or []
            hashes = sorted(x.invocation_metadata.fn_reference_with_args.arg_hash for x in got)
            names = {x.invocation_metadata.fn_reference_with_args.fn_reference.qualified_name for x in got}
            bad = False
            if names - {ref.qualified_name}:
                bad = True
            if limit is None:
                bad = bad or hashes != live
            else:
                bad = bad or len(hashes) != min(limit, len(live)) or len(set(hashes)) != len(hashes) \
                    or not set(hashes) <= set(live)
            if bad:
                self.fail(s, "list-mementos-wrong", "list_mementos(%s, limit=%r) = %r of %r, live arg hashes are %r" % (
                    fnkey, limit, [h[:8] for h in hashes], sorted(names), [h[:8] for h in live]), op="list_mementos")
        if live:
            self.labels.add("list-live")

    def op_write_meta(self, fnkey, arg, mkey, hexval):
        k = self.key(fnkey, arg)
        if k not in self.model:  # callers only attach metadata to an existing memento
            return
        r = self.rwa(fnkey, arg).fn_reference_with_arg_hash()
        val = bytes.fromhex(hexval)
        for s in self.stores:
            self.guarded(s, "write_metadata", s.backend.write_metadata, r, mkey, val)
        self.model[k]["meta"][mkey] = val
        self.labels.add("metadata")

    def op_read_meta(self, fnkey, arg, mkey):
        self.touch(fnkey, arg)
        k = self.key(fnkey, arg)
        r = self.rwa(fnkey, arg).fn_reference_with_arg_hash()
        want = self.model.get(k, {}).get("meta", {}).get(mkey)
        for s in self.stores:
            ok, got = self.guarded(s, "read_metadata", s.backend.read_metadata, r, mkey)
            if ok and got != want:
                self.fail(s, "metadata-wrong", "read_metadata(%s(%r), %r) = %r, model says %r" % (fnkey, arg, mkey, got, want), op="read_metadata")

    def op_reopen(self):
        for s in self.stores:
            s.open()
        if self.model:
            self.labels.add("reopen-live")

    # -- invariant sweep -----------------------------------------------------------------
    def sweep(self):
        for fnkey, arg in list(self.touched):
            self.op_is(fnkey, arg)
            self.op_read(fnkey, arg) if self.key(fnkey, arg) in self.model else self.op_get(fnkey, arg)
            for mk in ("log",):
                self.op_read_meta(fnkey, arg, mk)
        self.op_list_functions()
        for fnkey in sorted({f for f, _ in self.touched}):
            self.op_list_mementos(fnkey)

    def run(self, extra_invariant=None):
        mode = self.case.get("sweep", "full")
        ops = self.case["ops"]
        for i, op in enumerate(ops):
            self.step = i
            self.apply(op)
            if extra_invariant:
                extra_invariant(self)
            if mode == "full" and not self.out.violations:
                self.sweep()
                if extra_invariant:
                    extra_invariant(self)
            if self.out.violations:
                break
        if not self.out.violations:
            self.step = len(ops)
            self.sweep()
            if extra_invariant:
                extra_invariant(self)
        self.out.labels = sorted(self.labels)
        return self.out


def _short(v):
    r = repr(v)
    return r if len(r) < 80 else r[:40] + "...(%d chars)..." % len(r) + r[-20:]

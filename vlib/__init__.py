"""Shared machinery for the memento property checks (see /verif/DESIGN.md)."""

"""
Independent implementation of the documented argument-hash algorithm (ArgumentHasher docstring
in twosigma/memento/reference.py) and argument-value descriptors/strategies (C04, C11, C16).

Argument descriptors reuse vlib.values descriptors, restricted to the supported argument
domain, plus {"t":"fn","name":..,"pargs":[desc..],"pkwargs":{k:desc}} for memento function
references (possibly partially applied, chained).
"""
import datetime
import hashlib
import json

from vlib import values


def build_arg(d):
    if d["t"] == "fn":
        from vlib import afuncs
        f = afuncs.FUNCS[d["name"]]
        steps = d.get("steps")
        if steps is None:
            steps = [[d.get("pargs", []), d.get("pkwargs", {})]] if (d.get("pargs") or d.get("pkwargs")) else []
        for pargs, pkw in steps:
            f = f.partial(*[build_arg(x) for x in pargs], **{k: build_arg(v) for k, v in pkw.items()})
        return f
    if d["t"] == "extfn":
        # a reference to a function (version) that cannot be resolved in this process: it only knows what the document says
        from twosigma.memento.reference import FunctionReference
        return FunctionReference.from_qualified_name(
            d["qn"], partial_args=tuple(build_arg(x) for x in d.get("pargs", [])) or None,
            partial_kwargs={k: build_arg(v) for k, v in d.get("pkwargs", {}).items()} or None,
            parameter_names=list(d["params"]), external=True).memento_fn
    if d["t"] == "list":
        return [build_arg(x) for x in d["v"]]
    if d["t"] == "dict":
        return {k: build_arg(x) for k, x in d["v"].items()}
    return values.build(d)


# -- the written specification -------------------------------------------------------------

def _iso_dt(x):
    s = "%04d-%02d-%02dT%02d:%02d:%02d" % (x.year, x.month, x.day, x.hour, x.minute, x.second)
    if x.microsecond:
        s += ".%06d" % x.microsecond
    off = x.utcoffset()
    if off is not None:
        total = int(off.total_seconds())
        sign = "+" if total >= 0 else "-"
        total = abs(total)
        s += "%s%02d:%02d" % (sign, total // 3600, (total % 3600) // 60)
        if total % 60:
            s += ":%02d" % (total % 60)
    return s


def spec_encode(arg):
    from twosigma.memento.types import MementoFunctionType
    if arg is None or isinstance(arg, (bool, str, int, float)):
        return arg
    if isinstance(arg, datetime.datetime):
        return {"_mementoType": "datetime", "iso8601": _iso_dt(arg)}
    if isinstance(arg, datetime.date):
        return {"_mementoType": "date", "iso8601": "%04d-%02d-%02d" % (arg.year, arg.month, arg.day)}
    if isinstance(arg, list):
        return [spec_encode(x) for x in arg]
    if isinstance(arg, dict):
        return {k: spec_encode(v) for k, v in arg.items()}
    if isinstance(arg, MementoFunctionType):
        ref = arg.fn_reference()
        pa = list(ref.partial_args) if ref.partial_args else None
        return {
            "_mementoType": "FunctionReference",
            "qualifiedName": ref.qualified_name,
            "partialArgs": spec_encode(pa),
            "partialKwargs": spec_encode(dict(ref.partial_kwargs or {})),
            "parameterNames": list(ref.parameter_names),
        }
    raise TypeError("outside the argument domain: %r" % type(arg))


def canonical_json(encoded):
    return json.dumps(encoded, sort_keys=True, separators=(",", ":"), ensure_ascii=True, allow_nan=True)


def spec_hash(effective_kwargs, context_args=None):
    kw = dict(effective_kwargs)
    if context_args:
        kw["_memento_context_args"] = context_args
    return hashlib.sha256(canonical_json(spec_encode(kw)).encode("utf-8")).hexdigest()


def canonical_of_binding(binding, context_args=None):
    kw = dict(binding)
    if context_args:
        kw["_memento_context_args"] = context_args
    return canonical_json(spec_encode(kw))


def self_test():
    pinned = {
        "44136fa355b3678a1146ad16f7e8649e94fb4fc21fe77e8310c060f61caaff8a": {},
        "4cc66ba3de661a1a9319c150542555d384af8d81724a3b64dab2001d85df06df": {"a": 42},
        "d091f9c83c091f79652fe8786375b3fe4ce0861a56f5bfbafedbe431877ff0e8": {"a": None},
        "f7f851f4ba8ef23c0a3f2c20548bcc4bac24c46bc1c2c9332f7be4a695f22275": {"a": 123.45},
        "70621113b1eb7b8fbec0b1cb896e5f6adb32a9dbe08b5032c5edef18fca6002c": {"a": "abc123"},
        "730bc329ebcd24c6c9663ca4bb0e199a090dbf9d9d1058651d8560236abb1095": {"a": [1, 2, 3]},
        "52ea3bee36356ba2a31ff7931c95d69aee13f8f3d24727aa4fd9d456885ea00f":
            {"a": {"c": [1, 2, 3], "a": 1, "d": {"e": "f"}, "b": 2}},
    }
    for h, kw in pinned.items():
        assert spec_hash(kw) == h, (kw, spec_hash(kw), h)


# -- strategies ------------------------------------------------------------------------------

def strategies():
    from hypothesis import strategies as st
    import types
    S = values.strategies()
    tz_min = st.one_of(st.none(), st.sampled_from([0, 60, -300, 330, 345, -720, 840, 1]))

    @st.composite
    def dt(draw):
        d = draw(st.datetimes(min_value=datetime.datetime(1, 1, 2), max_value=datetime.datetime(9999, 12, 30)))
        if draw(st.integers(0, 2)) == 0:
            d = d.replace(hour=0, minute=0, second=0, microsecond=0)
        elif draw(st.booleans()):
            d = d.replace(microsecond=0)
        return {"t": "dt", "v": d.isoformat(), "tz": draw(tz_min)}

    scalar = st.one_of(
        st.just({"t": "none"}),
        st.booleans().map(lambda b: {"t": "bool", "v": b}),
        S.ints.map(lambda i: {"t": "int", "v": str(i)}),
        st.sampled_from([0, 1]).map(lambda i: {"t": "int", "v": str(i)}),
        S.floats.map(lambda f: {"t": "float", "v": f}),
        st.sampled_from(["0.0", "1.0", "-0.0"]).map(lambda f: {"t": "float", "v": f}),
        S.text.map(lambda s: {"t": "str", "v": s}),
        st.sampled_from(["1", "true", "", "None", "0.0"]).map(lambda s: {"t": "str", "v": s}),
        S.dates.map(lambda d: {"t": "date", "v": d.isoformat()}),
        dt(),
    )
    # dict keys beginning with "_memento" are reserved by the encoding (in-band type tags) and are not user data;
    # Hypothesis would otherwise offer the literal "_mementoType" it finds in this module's source
    S.text_key = S.text.filter(lambda k: not k.startswith("_memento"))
    simple = st.recursive(scalar, lambda ch: st.one_of(
        st.lists(ch, max_size=3).map(lambda v: {"t": "list", "v": v}),
        st.dictionaries(st.one_of(S.text_key, st.sampled_from(["a", "b", "k"])), ch, max_size=3).map(lambda v: {"t": "dict", "v": v}),
    ), max_leaves=5)

    @st.composite
    def fnref(draw):
        name = draw(st.sampled_from(["h1", "h2"]))
        steps = []
        if name == "h1":
            for _ in range(draw(st.integers(0, 2))):
                npos = draw(st.integers(0, 1)) if not steps else 0
                pargs = [draw(simple) for _ in range(npos)]
                free = [p for p in ["b", "c"]]
                pkw = {k: draw(simple) for k in draw(st.lists(st.sampled_from(free), max_size=2, unique=True))}
                if pargs or pkw:
                    steps.append([pargs, pkw])
        else:
            if draw(st.booleans()):
                steps.append([[draw(scalar)], {}])
            if draw(st.booleans()):
                steps.append([[], {"y": draw(scalar)}])
        return {"t": "fn", "name": name, "steps": steps}

    arg = st.recursive(st.one_of(scalar, scalar, fnref()), lambda ch: st.one_of(
        st.lists(ch, max_size=3).map(lambda v: {"t": "list", "v": v}),
        st.dictionaries(st.one_of(S.text_key, st.sampled_from(["a", "b", "k"])), ch, max_size=3).map(lambda v: {"t": "dict", "v": v}),
    ), max_leaves=6)
    ctx = st.one_of(st.none(), st.just({}), st.dictionaries(st.sampled_from(["tenant", "asof", "x"]), simple, min_size=1, max_size=2))
    return types.SimpleNamespace(scalar=scalar, simple=simple, fnref=fnref, arg=arg, ctx=ctx, dt=dt, S=S)

"""
Table-driven harness memento functions: the body looks its behaviour up in vlib.rt, which lives
outside any tracked module global, and records every execution there.
"""
import twosigma.memento as m
from twosigma.memento.exception import NonMemoizedException
from vlib import rt


class CustomErr(Exception):
    pass


class TwoArgErr(Exception):
    def __init__(self, a, b):
        super().__init__("%s/%s" % (a, b))


class NoArgErr(Exception):
    def __init__(self):
        super().__init__("fixed text")


class NotMemoized(NonMemoizedException):
    pass


class Holder:
    """exception classes defined inside another class (qualified name 'Holder.NestedErr')"""

    class NestedErr(Exception):
        pass

    class Inner:
        class DeepErr(ValueError):
            pass


class NestedErr(RuntimeError):
    """a different, top-level class that shares its short name with Holder.NestedErr"""


def raise_kind(kind, msg):
    if kind == "ValueError":
        raise ValueError(msg)
    if kind == "KeyError":
        raise KeyError(msg)
    if kind == "ZeroDivisionError":
        raise ZeroDivisionError(msg)
    if kind == "CustomErr":
        raise CustomErr(msg)
    if kind == "TwoArgErr":
        raise TwoArgErr(msg, "second")
    if kind == "NoArgErr":
        raise NoArgErr()
    if kind == "LocalErr":
        class LocalErr(Exception):
            pass
        raise LocalErr(msg)
    if kind == "LazyErr":
        from vlib import lazyerrs     # imported only when the body runs
        raise lazyerrs.LazyErr(msg)
    if kind == "NestedErr":
        raise Holder.NestedErr(msg)
    if kind == "DeepErr":
        raise Holder.Inner.DeepErr(msg)
    if kind == "NotMemoized":
        raise NotMemoized(msg)
    raise AssertionError(kind)


REBUILDABLE = {"ValueError": ValueError, "KeyError": KeyError, "ZeroDivisionError": ZeroDivisionError,
               "CustomErr": CustomErr, "NestedErr": Holder.NestedErr, "DeepErr": Holder.Inner.DeepErr}


@m.memento_function(cluster="c", version="1")
def val(k):
    return rt.produce("val", k)


@m.memento_function(cluster="c", version="1")
def val2(k):
    return rt.produce("val2", k)


@m.memento_function(version="1")
def val_default_cluster(k):
    return rt.produce("val_default_cluster", k)


@m.memento_function(cluster="c", version="1")
def bat(p, k):
    return rt.produce("bat", k)


def _part_body(i):
    from vlib import values
    spec = rt.PART_LEVELS[i]
    rt._log.append(("p%d" % i, {}))
    own = {k: values.build(v) for k, v in spec["own"].items()}
    if spec["staging"] == "passthrough" and i > 0:
        # hands on, as it is, the partition another memento function returned
        return PARTS[i - 1]()
    if spec["staging"] in ("impart", "impart_dd"):
        from twosigma.memento.partition import InMemoryPartition
        if spec["staging"] == "impart_dd":
            # the mapping of the partition module's own docstring example
            import collections
            dd = collections.defaultdict(lambda: [])
            dd.update(own)
            own = dd
        part = InMemoryPartition(own)
    else:
        from twosigma.memento.storage_filesystem import OnDiskPartition
        part = OnDiskPartition()
        for k, v in own.items():
            part[k] = v
    if i > 0:
        part._merge_parent = PARTS[i - 1]()
    if spec.get("publish"):
        # published under a key of the caller's choosing (an updated dataset is published under the key of the previous one)
        from twosigma.memento.result import KeyOverrideResult
        return KeyOverrideResult(part, spec["publish"])
    return part


@m.memento_function(cluster="c", version="1")
def p0():
    return _part_body(0)


@m.memento_function(cluster="c", version="1")
def p1():
    return _part_body(1)


@m.memento_function(cluster="c", version="1")
def p2():
    return _part_body(2)


@m.memento_function(cluster="c", version="1")
def p3():
    return _part_body(3)


@m.memento_function(cluster="c", version="1")
def p4():
    return _part_body(4)


PARTS = [p0, p1, p2, p3, p4]

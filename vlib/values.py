"""
E5 - value descriptors (JSON) -> Python result/argument values, Hypothesis strategies for
them, and typed structural equality.

A descriptor is a small JSON value so that cases stay replayable:
  {"t":"none"} {"t":"bool","v":true} {"t":"int","v":"123"} {"t":"float","v":"nan"}
  {"t":"str","v":"..."} | {"t":"str","n":1000,"c":"a"} {"t":"bytes","v":"<hex>"}
  {"t":"date","v":"2020-01-02"} {"t":"dt","v":"2020-01-02T03:04:05.000006","tz":null|minutes}
  {"t":"ts","v":..., "tz":...}  (pandas Timestamp)
  {"t":"list","v":[...]} {"t":"dict","v":{k: desc}}
  {"t":"nd","dtype":"int8","v":[...]}  {"t":"index","v":[...]}  {"t":"series","v":[...],"name":..,"dtype":..}
  {"t":"frame","cols":{name:{"dtype":..,"v":[..]}},"index":[..]|null}
  {"t":"impart","v":{k:desc}}  {"t":"odpart","v":{k:desc}}
"""
import datetime
import math

import numpy as np
import pandas as pd

FLOAT_SPECIAL = {"nan": float("nan"), "inf": float("inf"), "-inf": float("-inf"), "-0.0": -0.0}
ND_DTYPES = ["bool", "int8", "int16", "int32", "int64", "float32", "float64"]


def _flt(s):
    if isinstance(s, (int, float)):
        return float(s)
    return FLOAT_SPECIAL[s] if s in FLOAT_SPECIAL else float(s)


def _tz(minutes):
    if minutes is None:
        return None
    return datetime.timezone(datetime.timedelta(minutes=minutes))


def build(d):
    t = d["t"]
    if t == "none":
        return None
    if t == "bool":
        return bool(d["v"])
    if t == "int":
        return int(d["v"])
    if t == "float":
        return _flt(d["v"])
    if t == "str":
        return d["v"] if "v" in d else d.get("c", "x") * int(d["n"])
    if t == "bytes":
        return bytes.fromhex(d["v"]) if "v" in d else (d.get("c", "00") and bytes.fromhex(d.get("c", "00")) * int(d["n"]))
    if t == "date":
        return datetime.date.fromisoformat(d["v"])
    if t == "dt":
        return datetime.datetime.fromisoformat(d["v"]).replace(tzinfo=_tz(d.get("tz")))
    if t == "ts":
        x = pd.Timestamp(d["v"])
        return x.tz_localize(_tz(d["tz"])) if d.get("tz") is not None else x
    if t == "list":
        return [build(x) for x in d["v"]]
    if t == "dict":
        return {k: build(x) for k, x in d["v"].items()}
    if t == "nd" and "n" in d:
        # compact form: n elements 0,1,2,... (mod 100) - for arrays whose *size class* matters
        return (np.arange(d["n"]) % 100).astype(d["dtype"])
    if t == "nd":
        vals = [(_flt(x) if d["dtype"].startswith("float") else x) for x in d["v"]]
        return np.array(vals, dtype=d["dtype"])
    if t == "index":
        return pd.Index([build(x) for x in d["v"]])
    if t == "series":
        vals = [(_flt(x) if str(d.get("dtype", "")).startswith("float") else x) for x in d["v"]]
        return pd.Series(vals, name=d.get("name"), dtype=d.get("dtype"),
                         index=d.get("index"))
    if t == "frame":
        cols = {}
        for name, c in d["cols"].items():
            vals = [(_flt(x) if str(c["dtype"]).startswith("float") else x) for x in c["v"]]
            cols[name] = pd.Series(vals, dtype=c["dtype"], index=d.get("index"))
        return pd.DataFrame(cols, index=d.get("index"))
    if t == "framevar":
        # more than 100 rows of strings of very different lengths: the memory cache estimates the size of such a frame from
        # a random sample of its rows, so two estimates of the same frame differ
        n, avg = d["rows"], d["avg"]
        return pd.DataFrame({"s": [("x" * (1 if i % 3 else 3 * avg - 2)) for i in range(n)]})
    if t == "impart":
        from twosigma.memento.partition import InMemoryPartition
        return InMemoryPartition({k: build(x) for k, x in d["v"].items()})
    if t == "odpart":
        from twosigma.memento.storage_filesystem import OnDiskPartition
        p = OnDiskPartition()
        for k, x in d["v"].items():
            p[k] = build(x)
        return p
    raise ValueError("unknown descriptor %r" % (d,))


def is_partition_desc(d):
    return d["t"] in ("impart", "odpart")


def typed_equal(a, b):
    """Structural equality that also compares Python types (bool/int/float, date/datetime,
    naive/aware) and treats NaN as equal to NaN, 0.0 as different from -0.0."""
    if isinstance(a, pd.DataFrame) or isinstance(b, pd.DataFrame):
        if not (isinstance(a, pd.DataFrame) and isinstance(b, pd.DataFrame)):
            return False
        return (list(a.columns) == list(b.columns) and list(a.dtypes.astype(str)) == list(b.dtypes.astype(str))
                and a.index.equals(b.index) and a.equals(b))
    if isinstance(a, pd.Series) or isinstance(b, pd.Series):
        if not (isinstance(a, pd.Series) and isinstance(b, pd.Series)):
            return False
        return (str(a.dtype) == str(b.dtype) and a.name == b.name and a.index.equals(b.index)
                and a.equals(b))
    if isinstance(a, pd.Index) or isinstance(b, pd.Index):
        if not (isinstance(a, pd.Index) and isinstance(b, pd.Index)):
            return False
        return str(a.dtype) == str(b.dtype) and a.equals(b)
    if isinstance(a, np.ndarray) or isinstance(b, np.ndarray):
        if not (isinstance(a, np.ndarray) and isinstance(b, np.ndarray)):
            return False
        return a.dtype == b.dtype and a.shape == b.shape and bool(
            np.array_equal(a, b, equal_nan=a.dtype.kind == "f"))
    from twosigma.memento.partition import Partition
    if isinstance(a, Partition) or isinstance(b, Partition):
        # partitions of whatever implementation are equal when they hold the same keys with equal values
        if not (isinstance(a, Partition) and isinstance(b, Partition)):
            return False
        ka, kb = sorted(a.list_keys()), sorted(b.list_keys())
        return ka == kb and all(typed_equal(a.get(k), b.get(k)) for k in ka)
    if isinstance(a, pd.Timestamp) or isinstance(b, pd.Timestamp):
        if type(a) is not type(b):
            return False
        return (a.tzinfo is None) == (b.tzinfo is None) and a == b and a.utcoffset() == b.utcoffset()
    if type(a) is not type(b):
        return False
    if isinstance(a, float):
        return repr(a) == repr(b)
    if isinstance(a, datetime.datetime):
        return (a.replace(tzinfo=None) == b.replace(tzinfo=None)
                and a.utcoffset() == b.utcoffset())
    if isinstance(a, (list, tuple)):
        return len(a) == len(b) and all(typed_equal(x, y) for x, y in zip(a, b))
    if isinstance(a, dict):
        return a.keys() == b.keys() and all(typed_equal(a[k], b[k]) for k in a)
    return a == b


def partition_contents(p):
    """dict key -> value for any Partition object (each key loaded on its own)."""
    return {k: p.get(k) for k in p.list_keys()}


# ------------------------------------------------------------------------------------------
# Hypothesis strategies producing descriptors
# ------------------------------------------------------------------------------------------

def strategies():
    """Returns a namespace of descriptor strategies (imported lazily: replay needs no Hypothesis)."""
    from hypothesis import strategies as st
    import types

    # any str a Python program can hold, lone surrogates included (os.fsdecode() of a non-UTF-8 file name yields them)
    SURR = ["\udc80", "\udce9", "\ud800", "\udfff"]
    text = st.text(alphabet=st.one_of(st.characters(codec="utf-8", exclude_categories=("Cs",)),
                                      st.characters(codec="utf-8", exclude_categories=("Cs",)), st.sampled_from(SURR)), max_size=12)
    ident = st.text(alphabet="abcdefgh_", min_size=1, max_size=4)
    ints = st.one_of(st.integers(-5, 5), st.integers(-2**70, 2**70),
                     st.sampled_from([2**63, -2**63 - 1, 2**64, 255, 256]))
    floats = st.one_of(
        st.sampled_from(["nan", "inf", "-inf", "-0.0", "0.0", "1e308", "5e-324", "0.1"]),
        st.floats(allow_nan=False, allow_infinity=False, width=64).map(repr))
    dates = st.dates(min_value=datetime.date(1, 1, 1), max_value=datetime.date(9999, 12, 31))
    tzs = st.one_of(st.none(), st.sampled_from([0, 60, -300, 330, 345, -720, 840]))

    @st.composite
    def dts(draw, kind="dt"):
        lo = datetime.datetime(1700, 1, 1) if kind == "ts" else datetime.datetime(2, 1, 1)
        hi = datetime.datetime(2200, 1, 1) if kind == "ts" else datetime.datetime(9998, 12, 31)
        d = draw(st.datetimes(min_value=lo, max_value=hi))
        if draw(st.booleans()):
            d = d.replace(microsecond=0)
        return {"t": kind, "v": d.isoformat(), "tz": draw(tzs)}

    scalar = st.one_of(
        st.just({"t": "none"}),
        st.booleans().map(lambda b: {"t": "bool", "v": b}),
        ints.map(lambda i: {"t": "int", "v": str(i)}),
        floats.map(lambda f: {"t": "float", "v": f}),
        text.map(lambda s: {"t": "str", "v": s}),
        st.binary(max_size=10).map(lambda b: {"t": "bytes", "v": b.hex()}),
        dates.map(lambda d: {"t": "date", "v": d.isoformat()}),
        dts("dt"),
        dts("ts"),
    )

    @st.composite
    def nd(draw):
        dtype = draw(st.sampled_from(ND_DTYPES))
        n = draw(st.integers(0, 6))
        if dtype == "bool":
            v = draw(st.lists(st.booleans(), min_size=n, max_size=n))
        elif dtype.startswith("int"):
            bits = int(dtype[3:])
            v = draw(st.lists(st.integers(-2 ** (bits - 1), 2 ** (bits - 1) - 1), min_size=n, max_size=n))
        else:
            v = draw(st.lists(st.sampled_from(["nan", "inf", "-0.0", "1.5", "0.0", "-2.25"]), min_size=n, max_size=n))
        return {"t": "nd", "dtype": dtype, "v": v}

    @st.composite
    def column(draw, n):
        dtype = draw(st.sampled_from(["int64", "float64", "bool", "object", "float32", "int8"]))
        if dtype == "bool":
            v = draw(st.lists(st.booleans(), min_size=n, max_size=n))
        elif dtype.startswith("int"):
            v = draw(st.lists(st.integers(-100, 100), min_size=n, max_size=n))
        elif dtype.startswith("float"):
            v = draw(st.lists(st.sampled_from(["nan", "1.5", "0.0", "-2.25", "inf"]), min_size=n, max_size=n))
        else:
            v = draw(st.lists(st.text(alphabet="abcé", max_size=3), min_size=n, max_size=n))
        return {"dtype": dtype, "v": v}

    @st.composite
    def series(draw):
        n = draw(st.integers(0, 5))
        c = draw(column(n))
        idx = draw(st.one_of(st.none(), st.just([10 * i for i in range(n)]),
                             st.just(["k%d" % i for i in range(n)])))
        return {"t": "series", "dtype": c["dtype"], "v": c["v"],
                "name": draw(st.one_of(st.none(), ident)), "index": idx}

    @st.composite
    def frame(draw):
        n = draw(st.integers(0, 4))
        names = draw(st.lists(ident, min_size=0, max_size=3, unique=True))
        cols = {nm: draw(column(n)) for nm in names}
        idx = draw(st.one_of(st.none(), st.just(["r%d" % i for i in range(n)])))
        return {"t": "frame", "cols": cols, "index": idx if names else None}

    index = st.lists(st.one_of(st.integers(-5, 5).map(lambda i: {"t": "int", "v": str(i)})),
                     max_size=5).map(lambda v: {"t": "index", "v": v}) | \
        st.lists(text.map(lambda s: {"t": "str", "v": s}), max_size=4).map(lambda v: {"t": "index", "v": v})

    pandas_np = st.one_of(nd(), series(), frame(), index)

    def containers(children):
        return st.one_of(
            st.lists(children, max_size=4).map(lambda v: {"t": "list", "v": v}),
            st.dictionaries(text, children, max_size=4).map(lambda v: {"t": "dict", "v": v}),
        )

    result_leaf = st.one_of(scalar, pandas_np)
    result_value = st.recursive(result_leaf, containers, max_leaves=8)

    part_keys = st.text(alphabet="abcXY.-_ é\udce9", min_size=1, max_size=5)
    partition = st.builds(
        lambda kind, v: {"t": kind, "v": v},
        st.sampled_from(["impart", "odpart"]),
        st.dictionaries(part_keys, result_value, max_size=4),
    )
    return types.SimpleNamespace(
        text=text, ident=ident, ints=ints, floats=floats, scalar=scalar, nd=nd, series=series,
        frame=frame, index=index, result_value=result_value, partition=partition,
        containers=containers, dts=dts, dates=dates, tzs=tzs, part_keys=part_keys,
    )

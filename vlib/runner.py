"""
Entry point:  ./check <ID> [--tier quick|thorough] [--replay FILE] [--shards N]

Runs the committed replay cases of the property first, then the generated search in up to 16
worker processes (fresh interpreters, PYTHONHASHSEED=0), merges their statistics, writes
/verif/evidence/<ID>.json and prints

    KNOWN-FINDING: property=<id> <what fails>      for every listed finding whose witness still fails
    VIOLATION property=<id> replay=<path>           for every violation that is not listed

Exit status: 0 held, 1 violation(s), 2 harness error (never a violation).
"""
import argparse
import glob
import importlib
import json
import os
import shutil
import subprocess
import sys
import tempfile
import time

ROOT = os.path.dirname(os.path.dirname(os.path.abspath(__file__)))
sys.path.insert(0, ROOT)

from vlib import core  # noqa: E402

PY = "/venv/bin/python" if os.path.exists("/venv/bin/python") else sys.executable

TIER_LIMIT_S = {"quick": 420, "thorough": 3 * 3600}


def scratch_root():
    base = "/dev/shm" if os.path.isdir("/dev/shm") and os.access("/dev/shm", os.W_OK) else None
    return tempfile.mkdtemp(prefix="verif-", dir=base)


def load_check(pid):
    return importlib.import_module("checks." + pid.lower())


def child_env():
    env = dict(os.environ)
    env["PYTHONHASHSEED"] = "0"
    # VERIF_REPO (optional): check a copy of the repository instead of the installed /repo (background sweeps)
    repo = env.get("VERIF_REPO")
    env["PYTHONPATH"] = (repo + os.pathsep if repo else "") + ROOT + os.pathsep + env.get("PYTHONPATH", "")
    env["TWOSIGMA_MEMENTO_VERIF"] = "1"
    env["PYTHONDONTWRITEBYTECODE"] = "1"
    env.pop("MEMENTO_ENV", None)
    return env


def main(argv=None):
    ap = argparse.ArgumentParser()
    ap.add_argument("pid")
    ap.add_argument("--tier", default=os.environ.get("VERIF_TIER", "quick"),
                    choices=["quick", "thorough"])
    ap.add_argument("--replay")
    ap.add_argument("--shards", type=int)
    ap.add_argument("--seed", type=int, default=int(os.environ.get("VERIF_SEED", "1") or 1))
    ap.add_argument("--keep", action="store_true")
    args = ap.parse_args(argv)
    pid = args.pid.upper()
    t0 = time.time()
    try:
        mod = load_check(pid)
    except Exception as e:  # pragma: no cover
        print("HARNESS-ERROR: cannot load check %s: %r" % (pid, e))
        return 2

    scratch = scratch_root()
    try:
        if args.replay:
            return run_replay_only(pid, args.replay, scratch)
        return run_check(pid, mod, args, scratch, t0)
    finally:
        if not args.keep:
            shutil.rmtree(scratch, ignore_errors=True)


def run_replay_only(pid, path, scratch):
    out = os.path.join(scratch, "replay.json")
    r = subprocess.run([PY, "-m", "vlib.shard", pid, "replay", "0", "0", "1", scratch, out,
                        os.path.abspath(path)], env=child_env(), cwd=ROOT)
    if r.returncode != 0 or not os.path.exists(out):
        print("HARNESS-ERROR: replay process failed (exit %s)" % r.returncode)
        return 2
    res = json.load(open(out))
    findings = core.load_findings(pid)
    bad = 0
    for v in res["violations"]:
        f = core.match_finding(v["signature"], findings)
        if f:
            print("KNOWN-FINDING: property=%s %s" % (pid, f["what"]))
        else:
            bad += 1
            print("VIOLATION property=%s replay=%s" % (pid, path))
            print("  " + v["message"].replace("\n", "\n  ")[:1500])
    if not res["violations"]:
        print("replay held: %s" % path)
    return 1 if bad else 0


def run_check(pid, mod, args, scratch, t0):
    tier = args.tier
    nshards = args.shards or getattr(mod, "SHARDS", {}).get(tier, 16)
    nshards = max(1, min(nshards, os.cpu_count() or 1, 16))
    limit = float(os.environ.get("VERIF_TIER_LIMIT_S") or getattr(mod, "TIER_LIMIT_S", TIER_LIMIT_S)[tier])
    env = child_env()
    env["VERIF_DEADLINE"] = str(t0 + limit * 0.85)
    env.setdefault("VERIF_SHRINK_BUDGET_S", "40" if tier == "quick" else "300")
    procs = []
    # replay tier (committed regression cases and finding witnesses) runs as its own process
    replays = sorted(glob.glob(os.path.join(ROOT, "replays", pid, "*.json")))
    jobs = []
    if replays:
        jobs.append(("replays", [PY, "-m", "vlib.shard", pid, "replays", str(args.seed), "0", "1",
                                 scratch, os.path.join(scratch, "replays.json")] + replays))
    for s in range(nshards):
        jobs.append(("shard%d" % s, [PY, "-m", "vlib.shard", pid, tier, str(args.seed), str(s),
                                     str(nshards), scratch,
                                     os.path.join(scratch, "shard%d.json" % s)]))
    for name, cmd in jobs:
        logf = open(os.path.join(scratch, name + ".log"), "w")
        procs.append((name, cmd, subprocess.Popen(cmd, env=env, cwd=ROOT, stdout=logf,
                                                  stderr=subprocess.STDOUT), logf))
    harness_errors = []
    truncated = False
    for name, cmd, p, logf in procs:
        remaining = t0 + limit - time.time()
        try:
            p.wait(timeout=max(remaining, 1))
        except subprocess.TimeoutExpired:
            # ask the worker to hand over its partial result (SIGTERM), then make sure it is gone
            p.terminate()
            try:
                p.wait(timeout=20)
            except subprocess.TimeoutExpired:
                p.kill()
                p.wait()
            truncated = True
            if not os.path.exists(cmd[9]):
                harness_errors.append("%s exceeded the tier time limit and left no result" % name)
        logf.close()
    results = []
    for name, cmd, p, logf in procs:
        outp = cmd[9]
        if os.path.exists(outp):
            try:
                results.append((name, json.load(open(outp))))
                continue
            except Exception as e:
                harness_errors.append("%s: unreadable result (%r)" % (name, e))
        else:
            tail = open(os.path.join(scratch, name + ".log")).read()[-3000:]
            harness_errors.append("%s exited %s without a result:\n%s" % (name, p.returncode, tail))

    findings = core.load_findings(pid)
    merged = {
        "evaluations": 0, "nontrivial": set(), "labels": {}, "samples": [], "violations": [],
        "known_hits": {}, "excluded": 0, "exhaustive": None, "truncated": truncated, "extra": {},
    }
    exhaustive_flags = []
    for name, r in results:
        merged["evaluations"] += r["evaluations"]
        merged["nontrivial"].update(r["nontrivial"])
        for k, v in r["labels"].items():
            merged["labels"][k] = merged["labels"].get(k, 0) + v
        for s in r["samples"]:
            if len(merged["samples"]) < 6:
                merged["samples"].append(s)
        for v in r["violations"]:
            v["origin"] = name
            merged["violations"].append(v)
        for k, v in r["known_hits"].items():
            merged["known_hits"][k] = merged["known_hits"].get(k, 0) + v
        merged["excluded"] += r["excluded"]
        merged["truncated"] = merged["truncated"] or r["truncated"]
        if name != "replays":
            exhaustive_flags.append(r["exhaustive"])
        for k, v in r["extra"].items():
            if isinstance(v, (int, float)) and not isinstance(v, bool):
                merged["extra"][k] = merged["extra"].get(k, 0) + v
            else:
                merged["extra"].setdefault(k, v)
        for he in r.get("harness_errors", []):
            harness_errors.append("%s: %s" % (name, he))
    if exhaustive_flags and all(f is True for f in exhaustive_flags) and not merged["truncated"]:
        merged["exhaustive"] = True
    elif any(f is not None for f in exhaustive_flags):
        merged["exhaustive"] = False

    # classify violations: known findings vs new; one report per signature
    known_lines = {}
    new = {}
    for v in merged["violations"]:
        f = core.match_finding(v["signature"], findings)
        if f is not None:
            known_lines[f["id"]] = f
        else:
            new.setdefault(core.sig_key(v["signature"]), v)
    for fid, n in merged["known_hits"].items():
        for f in findings:
            if f["id"] == fid:
                known_lines[fid] = f

    outdir = os.path.join(os.environ.get("VERIF_OUT_DIR") or os.path.join(ROOT, "out"), pid)
    os.makedirs(outdir, exist_ok=True)
    viol_paths = []
    for i, (k, v) in enumerate(sorted(new.items())):
        path = os.path.join(outdir, "violation-%s-%d.json" % (tier, i))
        with open(path, "w") as fh:
            json.dump({"property": pid, "signature": v["signature"], "message": v["message"],
                       "case": v["case"]}, fh, indent=1, default=str)
        viol_paths.append((path, v))

    wall = time.time() - t0
    evidence = {
        "property_id": pid,
        "tier": tier,
        "seed": args.seed,
        "level": getattr(mod, "LEVEL", "exploration"),
        "coverage": {
            "evaluations": merged["evaluations"],
            "distinct_nontrivial": len(merged["nontrivial"]),
            "rule": mod.RULE,
            "samples": merged["samples"],
            "labels": dict(sorted(merged["labels"].items())),
            "excluded_by_finding": merged["excluded"],
            "known_findings_hit": merged["known_hits"],
            "replay_files": len(replays),
            "shards": nshards,
            "truncated": merged["truncated"],
            "violation_signatures": [v["signature"] for _, v in viol_paths],
        },
        "assumptions": list(getattr(mod, "ASSUMPTIONS", [])),
        "wall_s": round(wall, 2),
        "violations": len(viol_paths),
    }
    if merged["exhaustive"] is not None:
        evidence["coverage"]["exhaustive"] = bool(merged["exhaustive"])
    for k, v in merged["extra"].items():
        evidence["coverage"].setdefault(k, v)
    if harness_errors:
        evidence["coverage"]["harness_errors"] = [h[:500] for h in harness_errors]
    # VERIF_EVIDENCE_DIR: sensitivity runs against seeded changes write elsewhere, so that the committed
    # evidence always describes a run against /repo itself
    evdir = os.environ.get("VERIF_EVIDENCE_DIR") or os.path.join(ROOT, "evidence")
    os.makedirs(evdir, exist_ok=True)
    with open(os.path.join(evdir, pid + ".json"), "w") as fh:
        json.dump(evidence, fh, indent=1, default=str)

    print("%s %s seed=%d: %d cases, %d distinct non-trivial, %.1fs%s" % (
        pid, tier, args.seed, merged["evaluations"], len(merged["nontrivial"]), wall,
        " (TRUNCATED)" if merged["truncated"] else ""))
    for fid, f in sorted(known_lines.items()):
        print("KNOWN-FINDING: property=%s %s" % (pid, f["what"]))
    for path, v in viol_paths:
        print("VIOLATION property=%s replay=%s" % (pid, path))
        print("  signature: %s" % json.dumps(v["signature"], sort_keys=True))
        print("  " + v["message"].replace("\n", "\n  ")[:1200])
    if viol_paths:
        return 1
    if harness_errors:
        for h in harness_errors:
            print("HARNESS-ERROR: " + h[:3000])
        return 2
    return 0


if __name__ == "__main__":
    sys.exit(main())

"""Worker process: python -m vlib.shard <ID> <tier|replay|replays> <seed> <shard> <nshards> <scratch> <out> [files...]"""
import importlib
import json
import os
import sys
import traceback
import types

ROOT = os.path.dirname(os.path.dirname(os.path.abspath(__file__)))
sys.path.insert(0, ROOT)

from vlib import core  # noqa: E402


def main():
    pid, mode, seed, shard, nshards, scratch, out = sys.argv[1:8]
    files = sys.argv[8:]
    seed, shard, nshards = int(seed), int(shard), int(nshards)
    mod = importlib.import_module("checks." + pid.lower())
    findings = core.load_findings(pid)
    workdir = os.path.join(scratch, "w-%s-%d" % (mode, shard))
    os.makedirs(workdir, exist_ok=True)
    ctx = types.SimpleNamespace(
        pid=pid, tier=mode, seed=seed, shard=shard, nshards=nshards, scratch=workdir,
        findings=findings,
        deadline=float(os.environ.get("VERIF_DEADLINE", "0")) or None,
    )
    harness_errors = []

    def _on_term(signum, frame):
        # the runner's tier time limit: hand over what has been gathered so far (marked truncated) and stop
        try:
            st = core.LIVE[-1] if core.LIVE else core.Stats()
            st.truncated = True
            res_ = st.to_json()
            res_["harness_errors"] = list(harness_errors)
            res_["stopped_at_limit"] = True
            with open(out + ".tmp", "w") as fh_:
                json.dump(res_, fh_, default=str)
            os.replace(out + ".tmp", out)
        finally:
            os._exit(0)

    import signal
    signal.signal(signal.SIGTERM, _on_term)
    if mode in ("replay", "replays"):
        stats = core.Stats()
        if hasattr(mod, "setup"):
            mod.setup(ctx)
        for f in files:
            doc = json.load(open(f))
            case = doc["case"] if isinstance(doc, dict) and "case" in doc and "property" in doc else doc
            try:
                outcome = mod.replay(case, ctx)
            except core.HarnessError as e:
                harness_errors.append("replay %s: %s" % (f, e))
                continue
            stats.record(case, outcome)
            for v in outcome.violations:
                v = dict(v)
                v["message"] = "[replay %s] %s" % (os.path.basename(f), v["message"])
                stats.add_violation(case, v)
    else:
        try:
            stats = mod.run_shard(ctx)
        except core.HarnessError as e:
            stats = getattr(e, "stats", None) or core.Stats()
            harness_errors.append(str(e))
    res = stats.to_json()
    res["harness_errors"] = harness_errors
    with open(out + ".tmp", "w") as fh:
        json.dump(res, fh, default=str)
    os.replace(out + ".tmp", out)


if __name__ == "__main__":
    try:
        main()
    except SystemExit:
        raise
    except BaseException:
        traceback.print_exc()
        sys.exit(3)

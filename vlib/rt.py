"""Side channel for harness functions: records body executions outside any tracked module global."""
_log = []


def rec(name, received):
    _log.append((name, dict(received)))
    return len(_log)


def take():
    out = list(_log)
    del _log[:]
    return out


def count():
    return len(_log)


TABLE = {}


def produce(fname, k):
    """Body of the table-driven harness functions: record the run, then return/raise TABLE[(fname, k)]()."""
    _log.append((fname, {"k": k}))
    return TABLE[(fname, k)]()

PART_LEVELS = []

"""Generators (exhaustive + Hypothesis) of storage histories for C05/C07/C19."""
import itertools

FN_KEYS = ["f#1", "f#10", "f2#1", "fa#10", "fab#1"]
import sys as _sys
STR_OVERHEAD = _sys.getsizeof("")  # 41 on CPython 3.12 (compact ASCII str)


def size_classes(budget_kb):
    b = int(budget_kb * 1024)
    return {
        "small": {"t": "str", "v": "s"},
        "small2": {"t": "str", "v": "other"},
        "third": {"t": "str", "n": max(b // 3 - STR_OVERHEAD, 1), "c": "t"},
        "fit": {"t": "str", "n": max(b - STR_OVERHEAD, 1), "c": "f"},
        "over": {"t": "str", "n": b - STR_OVERHEAD + 1, "c": "o"},
        "none": {"t": "none"},
        # weak-referenceable values (numpy arrays): the cache keeps a weak reference to them even when they are
        # not resident (oversize, or evicted while the caller still holds the object)
        "nd_over": {"t": "nd", "dtype": "int8", "n": b + 1},
        "nd_third": {"t": "nd", "dtype": "int8", "n": max(b // 3 - 128, 1)},
        # a frame whose estimated size (random row sample) scatters around the budget; only for budgets that can hold 150 rows
        "frame_var": ({"t": "framevar", "rows": 150, "avg": b // 150 - 58} if b // 150 > 100 else {"t": "str", "n": max(b // 3 - STR_OVERHEAD, 1), "c": "t"}),
    }


def small_scope_cases(max_len, budget_kb=2, keys=(("f#1", 0), ("f#10", 0)), sweeps=("full", "none"),
                      backends=("fs", "fsc", "mem"), extra_ops=()):
    sc = size_classes(budget_kb)
    alphabet = []
    for f, a in keys:
        alphabet += [["memoize", f, a, sc["small"]], ["memoize", f, a, sc["small2"]],
                     ["memoize", f, a, sc["over"]], ["memoize", f, a, sc["none"]],
                     ["memoize", f, a, sc["nd_over"]],
                     ["forget_call", f, a]]
    alphabet += [["forget_function", keys[0][0]], ["forget_everything"], ["reopen"]]
    alphabet += list(extra_ops)
    for n in range(1, max_len + 1):
        for seq in itertools.product(alphabet, repeat=n):
            for sw in sweeps:
                yield {"budget_kb": budget_kb, "shared_meta": True, "backends": list(backends),
                       "sweep": sw, "ops": [list(o) for o in seq]}


def history_strategy(max_ops=30, backends=("fs", "fsc", "mem"), overrides=False, pool_values=False):
    from hypothesis import strategies as st
    from . import values

    S = values.strategies()

    @st.composite
    def case(draw):
        budget_kb = draw(st.sampled_from([2, 2, 8, 64, 16384]))
        sc = size_classes(min(budget_kb, 64))
        shared = draw(st.booleans())
        nkeys = draw(st.integers(1, 4))
        keypool = draw(st.lists(st.tuples(st.sampled_from(FN_KEYS), st.sampled_from([0, 1, 2, 0, 1, 2, "@dt530", "@naive", "@date", "@nested", "@float"])),
                                min_size=nkeys, max_size=nkeys))
        n = draw(st.integers(1, max_ops))
        ops = []
        prev = keypool[0]
        small_vals = st.one_of(
            st.sampled_from([sc["small"], sc["small2"], sc["none"]]),
            S.scalar, S.nd(), S.frame(), S.series(),
            st.lists(S.scalar, max_size=3).map(lambda v: {"t": "list", "v": v}),
        )
        part = {"t": "impart", "v": {"a": sc["small"], "b": {"t": "int", "v": "7"}}}
        pool = [sc["small"], sc["small2"], {"t": "int", "v": "7"}, {"t": "list", "v": []}, sc["none"], part]
        for _ in range(n):
            # 60%: stay on the most recently touched key
            if draw(st.integers(0, 9)) < 6:
                k = prev
            else:
                k = draw(st.sampled_from(keypool))
            prev = k
            f, a = k
            kind = draw(st.sampled_from(
                ["memoize"] * 8 + ["read"] * 3 + ["get"] * 2 + ["is"] * 2 + ["forget_call"] * 3
                + ["list_functions", "list_mementos", "list_mementos", "write_meta", "write_meta",
                   "read_meta", "isall", "getmany", "reopen", "reopen"]
                + ["forget_function", "forget_everything"]))
            if kind == "memoize":
                cls = draw(st.sampled_from(["val", "val", "third", "third", "fit", "over", "over", "nd_over", "nd_third", "nd_third", "part", "frame_var"]))
                if cls == "part":
                    v = {"t": draw(st.sampled_from(["impart", "impart", "odpart"])), "v": {"a": sc["small"], "b": draw(st.sampled_from([sc["small2"], {"t": "int", "v": "7"}]))}}
                elif cls == "val":
                    v = draw(st.sampled_from(pool)) if pool_values else draw(small_vals)
                else:
                    v = sc[cls]
                ov = None
                if overrides and draw(st.integers(0, 3)) == 0:
                    ov = draw(st.sampled_from(["ov/x", "ov/x", "ov/y", "deep/er/z", "runs/b#7/out", "ov/x[1]", "ov/*"]))
                ops.append(["memoize", f, a, v] + ([ov] if ov else []))
            elif kind in ("read", "get", "is", "forget_call"):
                ops.append([kind, f, a])
            elif kind == "list_mementos":
                ops.append([kind, f, draw(st.sampled_from([None, None, 1, 2]))])
            elif kind == "write_meta":
                ops.append([kind, f, a, draw(st.sampled_from(["log", "log", "k2", "st:fin", "a[1]", "q*?"])),
                            draw(st.binary(max_size=6)).hex()])
            elif kind == "read_meta":
                ops.append([kind, f, a, draw(st.sampled_from(["log", "k2", "st:fin", "a[1]", "q*?"]))])
            elif kind in ("isall", "getmany"):
                m = draw(st.integers(1, 3))
                ops.append([kind, [list(draw(st.sampled_from(keypool))) for _ in range(m)]])
            elif kind == "forget_function":
                if draw(st.integers(0, 3)) == 0:  # destructive ops stay rare
                    ops.append([kind, f])
            elif kind == "forget_everything":
                if draw(st.integers(0, 5)) == 0:
                    ops.append([kind])
            else:
                ops.append([kind])
        if not ops:
            ops = [["list_functions"]]
        return {"budget_kb": budget_kb, "shared_meta": shared, "backends": list(backends),
                "construct": draw(st.sampled_from(["kw", "kw", "config+kw"])),
                "sweep": draw(st.sampled_from(["full", "none", "none"])), "ops": ops}

    return case()


def op_shape(case):
    """Key for 'distinct' counting: op kinds with value size class, not concrete values."""
    out = []
    for op in case["ops"]:
        if op[0] == "memoize":
            v = op[3]
            cls = v["t"] + (":big" if v.get("n", 0) > 500 else "")
            out.append("m:%s:%s:%s%s" % (op[1], op[2], cls, ":ov" if len(op) > 4 and op[4] else ""))
        else:
            out.append(":".join(str(x) for x in op[:3]))
    return [case.get("budget_kb"), case.get("sweep"), out]
